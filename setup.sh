#!/bin/bash
# Offline setup: sanity-check the tools and warm the Go build cache of the runner.
set -e
cd "$(dirname "$0")"
export GOFLAGS=-mod=mod GOPROXY=off GOSUMDB=off GOTOOLCHAIN=local
java -version >/dev/null 2>&1 || { echo "java missing"; exit 2; }
test -f /opt/veriftools/tla/tla2tools.jar || { echo "tla2tools.jar missing"; exit 2; }
python3 - <<'PY'
import sys
sys.path.insert(0, ".")
from lib import core
core.build_runner()
PY
echo setup ok
