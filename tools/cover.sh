#!/bin/bash
# Coverage probe: which statements of the library do the quick-tier scenario sets reach?
# usage: tools/cover.sh [checks...]   (default: all 19) -> .work/cover-profile.txt, .work/cover-uncovered.txt
# Not a registered check: a growth aid (DESIGN section 12). The runs use a private copy of /repo, so evidence/ is untouched.
cd "$(dirname "$0")/.."
export GOFLAGS=-mod=mod GOPROXY=off GOSUMDB=off GOTOOLCHAIN=local
cov=$(mktemp -d /tmp/verif-cov.XXXX)
cp -r /repo "$cov/tree"
mkdir "$cov/data"
checks="$@"; [ -z "$checks" ] && checks="C01 C02 C03 C04 C05 C06 C07 C08 C09 C10 C11 C12 C13 C14 C15 C16 C17 C18 C19"
for c in $checks; do
  VERIF_COVER=1 GOCOVERDIR="$cov/data" VERIF_REPO="$cov/tree" ./check $c 2>&1 | grep "\[done\]\|VIOLATION" | head -3
done
mkdir -p .work
(cd "$cov/tree" && go tool covdata textfmt -i="$cov/data" -o "$cov/profile.txt")
grep -v "verifharness\|/internal/\|/cmd/\|verif_" "$cov/profile.txt" > .work/cover-profile.txt
(cd "$cov/tree" && go tool cover -func="$OLDPWD/.work/cover-profile.txt" | tail -1)
python3 - "$cov/tree" <<'P' > .work/cover-uncovered.txt
import sys, collections
tree = sys.argv[1]
blocks = collections.defaultdict(int)
for l in open(".work/cover-profile.txt"):
    if l.startswith("mode:"):
        continue
    loc, n, c = l.rsplit(" ", 2)
    blocks[loc] += int(c)
src = {}
for loc, c in sorted(blocks.items(), key=lambda kv: (kv[0].split(":")[0], int(kv[0].split(":")[1].split(".")[0]))):
    if c:
        continue
    f, r = loc.split(":")
    f = f.replace("github.com/bufbuild/connect-go/", "")
    a, b = r.split(",")
    l1, l2 = int(a.split(".")[0]), int(b.split(".")[0])
    if f not in src:
        src[f] = open(tree + "/" + f).read().split("\n")
    print("%s:%d-%d" % (f, l1, l2))
    for i in range(l1, min(l2, l1 + 6) + 1):
        print("    " + src[f][i - 1])
P
wc -l .work/cover-uncovered.txt
rm -rf "$cov"
