#!/usr/bin/env python3
"""Writes seeded/RESULTS.md from seeded/*/meta.json."""
import glob, json, os, re
ROOT = os.path.dirname(os.path.dirname(os.path.abspath(__file__)))
rows = []
for p in sorted(glob.glob(os.path.join(ROOT, "seeded", "*", "meta.json"))):
    m = json.load(open(p))
    d = os.path.dirname(p)
    what = ""
    md = os.path.join(d, "description.md")
    if os.path.exists(md):
        txt = open(md).read()
        for line in txt.splitlines():
            if line.strip() and not line.startswith("#"):
                what = line.strip()[:160]
                break
    files = []
    for line in open(os.path.join(d, "patch.diff")):
        if line.startswith("+++ b/"):
            files.append(line[6:].strip())
    ok = m.get("applies") and m.get("suite_passes_with_change") and m.get("demo_fails_with_change") and m.get("demo_passes_without")
    rows.append((m["id"], ", ".join(files), "yes" if ok else "NO (%s)" % ",".join(k for k in ("applies", "suite_passes_with_change", "demo_fails_with_change", "demo_passes_without") if not m.get(k)),
                 ", ".join("%s:%s" % (r["check"], {0: "missed", 1: "caught", 2: "inconclusive"}.get(r["rc"], r["rc"])) for r in m["ran"]), what))
with open(os.path.join(ROOT, "seeded", "RESULTS.md"), "w") as f:
    f.write("# Seeded changes and the checks that catch them\n\n"
            "Each change was written by a fresh sub-agent that saw only the property text and a scratch worktree;\n"
            "`tools/seed.py` confirmed it (applies to /repo HEAD, the 447-test suite passes with it, its demonstration fails\n"
            "with it and passes without) and ran the listed quick checks against the changed tree (`VERIF_REPO`).\n\n"
            "| id | files | confirmed | quick checks | what (first line of the author's description) |\n|---|---|---|---|---|\n")
    for r in rows:
        f.write("| %s | %s | %s | %s | %s |\n" % r)
    conf = [r for r in rows if r[2] == "yes"]
    caught = sum(1 for r in conf if "caught" in r[3])
    f.write("\n%d of the %d confirmed changes are caught by at least one quick check; %d further candidates are not "
            "confirmed on the current tree (see their meta.json: invalidated by a later repair, or flaky with the existing suite).\n"
            % (caught, len(conf), len(rows) - len(conf)))
print(open(os.path.join(ROOT, "seeded", "RESULTS.md")).read()[-600:])
