#!/usr/bin/env python3
"""Regenerates MANIFEST.json from the table below (single source of truth for what is claimed)."""
import json, os, subprocess
ROOT = os.path.dirname(os.path.dirname(os.path.abspath(__file__)))
props = [json.loads(l)["id"] for l in open(os.path.join(ROOT, "properties.jsonl"))]

MC = "model_checking"
TRUST = "Trusted: TLC, the Go runner (harness/cmd/runner) and its projection of observations into the specification's vocabulary, the reference codec (harness/refcodec). Concretisation inside an abstract class (payload bytes, sizes within a class) is seeded-random. "
def claim(tech, text, note, ref, level=MC):
    return dict(technique=tech, text=text, note=TRUST + note, ref=ref, level=level)

PIPE = "TLC design check of the TLA+ module + TLC-enumerated scenarios executed on the real code + TLC trace validation of the recorded NDJSON traces"
CLAIMS = {
  "C01": claim("Wire.tla (ExactDelivery) / TraceWire.tla: " + PIPE,
      "Message sequences (sizes around the pool seed and the compression threshold, zero-valued messages anywhere, both directions) x protocol x codec x compression x RPC kind x HTTP version are enumerated by TLC; each runs end to end on the real client and handler (in-memory duplex transport and loopback HTTP/1.1 / HTTP/2); the tapped wire (one flag per message), the handler's view and the client's view must be what Wire.tla computes.",
      "Multi-MiB payloads only in the thorough tier.", "6 C01"),
  "C02": claim("Wire.tla (ErrorNeverSuccess) / TraceWire.tla: " + PIPE,
      "All 16 codes x message classes (empty, non-ASCII, control characters, '%', CR/LF, blanks, 4 KiB) x details x metadata x error kinds (coded, wrapped, coded-with-context-cause, plain) x messages sent before x protocol x codec x kind; the client's error, the raw response decoded by the reference codec and the HTTP status must be what Wire.tla computes.",
      "Messages are valid UTF-8.", "6 C02"),
  "C03": claim("Frames.tla (SegIndep) / TraceFrames.tla incl. a relational check between segmentations of one body: " + PIPE,
      "TLC proves on the bounded scenario set that the reader design yields the whole-wire oracle's outcome under every segmentation; every segmentation of small bodies (as TLC paths), adversarial and random segmentations of all design-check bodies and both EOF placements run on the real client and handler; each trace (every read, every API result) must be a behaviour of Frames.tla and two segmentations of one body must end alike.",
      "The scripted io.Reader honours io.Reader's contract.", "6 C03"),
  "C04": claim("Frames.tla (OnlyTerminatorIsSuccess, HandlerCleanEnd, PrefixOfSent) + SendSide.tla (write side) / TraceFrames.tla, TraceSendSide.tla: " + PIPE,
      "Every cut offset of every design-check body x {clean EOF, unexpected EOF, transport error} x gRPC trailers present/absent x three protocols x both sides x stream- and unary-shaped APIs is executed on the real code; a trace is accepted only if the result (clean end or coded error, delivered ids a prefix of the sent ones) is what Frames.tla allows. HTTPClient.Do failing outright. Write side: a transport that consumes exactly k bytes of the request body and then fails, for every k x RPC kind x protocol: the results of every Send and of the call's final operation must be what SendSide.tla allows (never success for an unconsumed message, a coded error at the end, nothing blocks).",
      "Cut offsets are exhaustive over abstract frame sizes and scaled for compressed / terminator frames.", "6 C04"),
  "C05": claim("Wire.tla (WellFormed) / TraceWire.tla with the raw exchange tokenised by an independent reference codec: " + PIPE,
      "Every response the real handler writes and every request the real client writes in the scenarios of C01/C02/C08/C11 is parsed by the harness' own strict codec (own envelope parser, protowire decoding of Status/Any, own percent / base64 / JSON handling); grammar problems (status count and placement, end-of-stream envelope, content-type echo, flag without encoding header, unary error JSON under the code's status) fail the trace and the decoded content must equal what the application supplied.",
      "Converse direction: the reference codec acts as a conformant foreign server (every combination of an encoder's freedoms: padding, hex case, extra escaping, omitted grpc-message / details, status in headers, key casing, per-message compression, compressed unary error body, JSON whitespace) against the real client, and as a conformant foreign client (per-message compression, bare gRPC content types, padded -Bin values, blanks in the accept list, unknown algorithm) against the real handler; both must decode to the program's values. The reference codec is written from the wire descriptions and shares no code with the library.", "6 C05"),
  "C06": claim("Resp.tla (NeverZero, Non200Fails) / TraceResp.tla: " + PIPE,
      "Response classes (17 HTTP statuses x content type x encoding header x gRPC status / details-bin classes in headers and in the terminator x Connect error JSON classes x body classes x metadata key casing x protocol x 4 call shapes) plus seeded random bodies are fed to the real client through a scripted HTTPClient; the outcome must be a success or an error inspectable as *connect.Error with a non-zero code, exactly the code Resp.tla prescribes where the protocols prescribe one, and terminator metadata must be found under its canonical key.",
      "Random bodies run with a 1 MiB read limit to bound the harness' memory.", "6 C06"),
  "C07": claim("Serve.tla (AtMostOnce, RefusedNeverRuns, NeverSuccessOnGarbage) / TraceServe.tla: " + PIPE,
      "Requests (method x HTTP version x 28 content-type strings x codec sets x encoding header x timeout strings x 9 body classes x limit x kind) plus seeded random bodies are served by the real Handler.ServeHTTP; user code / interceptor invocation counts, delivered messages, the response decoded by the reference codec (well-formedness problems fail the trace) and the error code must be what Serve.tla allows.",
      "", "6 C07"),
  "C08": claim("Wire.tla (NegotiationSound) / TraceWire.tla: " + PIPE,
      "Algorithm sets and registration orders on both sides (universe gzip, rev, rev2 incl. re-registering gzip) x send compression x compress-min-bytes x sizes around the threshold x protocol x kind; request / response encoding headers, accept lists, per-message flags, the unimplemented rejection without running user code and payload equality must be what Wire.tla computes.",
      "The 'corrupt call does not affect later calls' clause is exercised by the pool checks of C13.", "6 C08"),
  "C09": claim("Frames.tla (LimitExact, NoSpuriousLimit) / TraceFrames.tla + allocation bound: " + PIPE,
      "Sizes N-1, N, N+1, >>N on the wire and after inflation at stream positions 1..3, both directions, three protocols, stream- and unary-shaped APIs; plus memory attacks run one at a time (64 MiB gzip bomb under a 128 KiB limit, a prefix declaring 1 GiB in a message envelope and in an envelope flagged as terminator, the largest possible limit) with runtime.MemStats.TotalAlloc bounded by 8N + 8 MiB.",
      "The limit applies to every envelope, terminator frames included (they are buffered whole); the allocation bound is an auxiliary monitor on the same executions.", "6 C09"),
  "C10": claim("Scalars.tla + TimeoutGrammar.tla (TLC) + Timeout.tla (Apalache, whole 63-bit range) / TraceScalars.tla, TraceServe.tla",
      "Apalache proves the gRPC encoding bound (at most 8 digits, never longer, loses < 1 unit and < 0.01%) for every duration in 1..2^63-1; the real encoder is compared with the TLA+ operator on vectors and swept over boundary + random 63-bit durations against the library's own parser; the header a real client sends for a deadline is bracketed; every timeout string of the grammar model (grammatical, signed, fractional, over-long, unit-less ...) is served by the real handler and the deadline user code sees is compared with TimeoutGrammar.tla.",
      "Wall-clock slack between ctx.Deadline() and the header is measured per call.", "6 C10"),
  "C11": claim("Wire.tla (MetaVisible) / TraceWire.tla + Scalars.tla (binary headers): " + PIPE,
      "Header / trailer multimaps (several values per key, -Bin keys, a key used as header, trailer and error metadata) x protocol x kind x codec x {success with 0..2 messages, error before / after messages}; request headers at the handler, response headers / trailers / Error.Meta at the client and on the wire must contain every value in order as Wire.tla prescribes; the binary-header helpers round-trip padded and unpadded input.",
      "", "6 C11"),
  "C12": claim("Serve.tla (AcceptedIffAdvertised, RefusedNeverRuns) / TraceServe.tla: " + PIPE,
      "7 methods x HTTP/1.0, 1.1, 2 x 28 content-type strings (all advertised ones, near misses, foreign) x codec sets x 4 kinds: 405 + Allow, 505, 415 + Accept-Post = exactly the advertised set, no user code / interceptor in rejected cases, exactly one run with the right Spec otherwise.",
      "", "6 C12"),
  "C13": claim("Wire.tla per call + Pools.tla (buffer ownership, verif hooks) / TraceWire.tla, TracePools.tla; race detector as auxiliary monitor",
      "TLC-generated scenarios of C01/C02/C08/C11 are executed by 64 goroutines on ONE client and ONE handler per configuration with pairwise-distinct payloads (bidi streams with separate sending and receiving goroutines); each call's trace must be what Wire.tla computes for that call alone, foreign or stale bytes project to 'corrupt'; values handed to user code are re-read after the exchange; buffer-pool Get/Put events recorded by the verif hooks (buffers poisoned on Put) must be a behaviour of Pools.tla, also for error-path traffic (undecodable, corrupt, oversize input); the same traffic runs under the race detector.",
      "Real goroutine schedules are perturbed by load, not enumerated; data races are below the specification's grain and are left to the race detector.", "6 C13"),
  "C14": claim("Call.tla (TLC: RecvSticky, Quiesce, EveryOpReturns under fairness) / TraceCall.tla with the environment as silent steps",
      "TLC checks the call design (duplexHTTPCall + transport + handler program) for every client program within the bounds; client programs enumerated as TLC paths (Gen_Call.tla, no application-level circular wait) x handler programs x protocols run against a real loopback HTTP/2 server; each operation under a watchdog; the recorded call / return events must be a behaviour of Call.tla with transport, server and handler inferred as silent steps; afterwards no labelled goroutine may be inside the library and the response body must have been closed; body closing for rejected responses is checked in C06's runs.",
      "The environment half of Call.tla is a superset model of net/http of the Go toolchain in this sandbox.", "6 C14"),
  "C15": claim("Call.tla / TraceCall.tla: cancellation and expiry as model actions at every instant",
      "cancel() and deadline expiry before the call, between any two operations and during a blocked operation (fired 40 ms into it) x client programs x handler programs (incl. a handler that stalls until its context ends and returns the context's error) x protocols x {bidi, server-streaming, client-streaming API} over loopback HTTP/2 (and HTTP/1.1 for the half-duplex kinds); every operation that fails afterwards must return canceled / deadline_exceeded (a Send may report the stream-closed EOF), never success or another code. Byte-level instants: the context ending at every byte offset of every response body of the Frames design check (Frames.tla tails ctxc / ctxd) and when the transport has consumed exactly k bytes of the request (SendSide.tla), scripted transports.",
      "The environment half of Call.tla is a superset model of net/http of the Go toolchain in this sandbox; 'during' means 40 ms into a blocked operation.", "6 C15"),
  "C16": claim("Options.tla (DeclarationOrder, ExactlyOnce) / TraceOptions.tla: " + PIPE,
      "Every option tree (lists of up to 3 / 4 distinct interceptors with nil anywhere, every composition into WithInterceptors groups, groups wrapped in WithOptions / WithClientOptions / WithHandlerOptions, outer group, empty WithInterceptors()) x {client, handler} x {unary, stream} is built with the real constructors, applied twice, and one real call is made; the recorded order of every layer (entry, exit, send, receive) must be the onion Options.tla computes.",
      "", "6 C16"),
  "C17": claim("Gen.tla routing oracle + go/parser + go build on the plugin's real output (level: other)",
      "TLC enumerates descriptors (package absent / single / dotted x service and method name classes incl. all 25 Go keywords and predeclared identifiers x kinds x deprecation x go_package forms x files without services); the freshly built plugin runs on each, twice (determinism); the output is parsed, a sample (all in thorough) compiled against the library, the routing facts extracted from the AST are compared by TLC with Gen.tla; ping.connect.go is regenerated from the checked-in descriptors.",
      "'Valid Go that type-checks' is decided by the Go toolchain, not by the specification.", "6 C17", level="other"),
  "C18": claim("Scalars.tla (PctRoundTrip, StatusIsError) / TraceScalars.tla + exhaustive sweeps",
      "TLC enumerates all byte strings up to length 3 over 12 class representatives, decoder inputs up to length 4, code values and parse vectors; the real functions are applied and compared with the TLA+ operators; the 2^32 code space is swept (stratified 2^24 in quick, complete in thorough) for String/UnmarshalText round trip and 4xx/5xx status; random long byte strings for percent-encoding and binary headers; Grpc-Message is also observed end to end.",
      "Unexported functions are reached through verif-tagged shims.", "6 C18"),
  "C19": claim("Options.tla (WithRecover as an interceptor) / TraceOptions.tla: " + PIPE,
      "Panic value (none, nil, error, string, struct, abort sentinel) x panic point x kind x protocol x position of the recover interceptor in chains of up to three: exactly one call of the recovery function with the recovered value, its error at the client, messages delivered before the panic, exits of the outer interceptors, abort sentinel propagated.",
      "", "6 C19"),
}

def check(pid):
    c = CLAIMS[pid]
    return {
        "property_id": pid,
        "quick_cmd": "./check %s --tier quick" % pid,
        "thorough_cmd": "./check %s --tier thorough" % pid,
        "evidence_file": "/verif/evidence/%s.json" % pid,
        "replay_cmd_template": "./check %s --replay {path}" % pid,
        "engine": "tlc+go-runner",
        "level_claimed": {"category": c.get("level", MC), "text": c["text"], "design_ref": "DESIGN.md section " + c["ref"]},
        "level_note": c["note"],
        "technique": c["technique"],
    }

# scenario classes added in the later rounds of seeded changes (DESIGN.md section 10), per property
ADDENDA = {
  "C01": " Size classes are chosen for the ENCODED size (508..510 value bytes straddle the 512-byte pool seed; one scenario per encoded size 503..518).",
  "C02": " Error metadata may hold the protocol's own keys and HTTP-level keys of another response (Content-Length, Content-Encoding, Content-Type: an error passed on by a proxy); they are the library's to set.",
  "C04": " Also: HTTP/2 stream resets as transport errors; a response writer that refuses a single Write; the handler's view of a request stream whose client failed without closing it.",
  "C12": " Also: the Spec of streaming calls as client interceptors, handler interceptors and user code see it; handlers constructed with procedure strings of every shape; a codec whose name has a +suffix of its own.",
  "C07": " The compressed flag on a payload that is not compressed. Compression names in another letter case are unknown or gzip, never half-known; an accept-encoding header says nothing about the request's own messages; an empty JSON body is not a message.",
  "C11": " The codec refusing a response message after the handler set its metadata; metadata under its own carrier is exact (nothing added to a key the program set), also when Receive is asked again after the end; ResponseHeader read before the first Receive.",
  "C13": " A metadata-less sentinel error returned by shared handlers keeps its nil metadata map; the receiving goroutine may be inside Receive before the sender sets its headers and sends.",
  "C14": " Also: HTTPClient.Do returning a response after the context ended (that body is closed too); a Receive that fails for a reason of its own while the handler waits for the client returns at once.",
  "C15": " Also: the handler's context ending on the server side alone with the handler returning the bare ctx.Err(); the deadline passing before the unary handler function is called; responses (error pages included) that arrive after the context ended.",
  "C16": " One interceptor is a UnaryInterceptorFunc (transparent on streaming calls); three grouping modes (side-specific constructors, WithOptions, alternating); the earlier construction from the shared option values has another prefix.",
  "C17": " Also: a sibling file with the same service and method names generated in the same invocation; services whose generated identifiers meet (Foo / NewFoo, X / UnimplementedX, foo / Foo); methods that use messages of the file itself under Go package names that meet the generated code's own imports.",
  "C19": " Also: handlers that return an ordinary error (the recovery function stays idle); a recovered error with metadata next to trailers the handler had set; a recovered error whose message is not valid UTF-8 keeps its code.",
}
for _p, _t in ADDENDA.items():
    CLAIMS[_p]["text"] += _t

hooks = []
try:
    out = subprocess.run(["git", "-C", "/repo", "log", "--format=%H %s"], capture_output=True, text=True).stdout
    hooks = [l.split()[0] for l in out.splitlines() if l.split(" ", 1)[1].startswith("verif:")]
except Exception:
    pass

m = {
  "version": 1,
  "setup_cmd": "./setup.sh",
  "hooks": {
    "guard": "verif",
    "enable": "go build -tags verif (the runner under /verif/harness is built from /repo's working tree with -tags verif)",
    "baseline_off_cmd": "cd /repo && GOFLAGS=-mod=mod go test -json -vet=off -count=1 -timeout 25m ./...",
    "source_commits": hooks,
    "add_only": True,
  },
  "engines": [{"name": "tlc+go-runner", "path": "/verif/check",
               "serves_properties": sorted(CLAIMS), "kind_free_text": "explicit TLA+ specification (spec/*.tla) model-checked by TLC; TLC-generated scenarios executed on the real code by a Go runner; recorded NDJSON traces validated by TLC against trace specifications"}],
  "checks": [check(p) for p in props if p in CLAIMS],
  "not_applicable": [{"property_id": p, "reason": "not claimed yet: the call-level specification (Call.tla / Pools.tla) and its trace validation are still being built (DESIGN.md section 12)"} for p in props if p not in CLAIMS],
  "notes": "Model-based verification with an explicit TLA+ specification; see DESIGN.md.",
}
json.dump(m, open(os.path.join(ROOT, "MANIFEST.json"), "w"), indent=1)
print("claimed:", sorted(CLAIMS))
