#!/usr/bin/env python3
"""Regenerates MANIFEST.json from the table below (single source of truth for what is claimed)."""
import json, os, subprocess
ROOT = os.path.dirname(os.path.dirname(os.path.abspath(__file__)))
props = [json.loads(l)["id"] for l in open(os.path.join(ROOT, "properties.jsonl"))]

MC = "model_checking"
CLAIMS = {
  "C03": dict(technique="TLA+ spec Frames.tla: TLC design check (SegIndep) + TLC-enumerated segmentations replayed on the real envelope reader + TLC trace validation (TraceFrames.tla)",
              text="TLC checks exhaustively, for the bounded scenario set, that the reader design yields the whole-wire oracle's outcome under every segmentation; every segmentation of small bodies (as TLC paths) and adversarial/random segmentations of all design-check bodies are executed on the real client and handler and each recorded trace (every read, every API result) must be a behaviour of the specification.",
              note="Trusted: TLC, the scripted io.Reader of the harness, the projection payload->message id. Payload bytes inside a size class are seeded-random.", ref="6 C03"),
  "C04": dict(technique="TLA+ spec Frames.tla: TLC design check (OnlyTerminatorIsSuccess, HandlerCleanEnd, PrefixOfSent) + every cut offset x tail replayed on the real code + TLC trace validation",
              text="Every cut offset of every design-check body, with clean EOF / unexpected EOF / transport error tails and gRPC trailers present/absent, is executed against the real client and handler in three protocols; the recorded trace is accepted only if the result (clean end or coded error, delivered ids) is what Frames.tla allows.",
              note="Cut offsets are exhaustive over abstract frame sizes and scaled to concrete sizes for compressed/terminator frames. Write-side faults are covered by the call-level checks.", ref="6 C04"),
  "C09": dict(technique="TLA+ spec Frames.tla: TLC design check (LimitExact, NoSpuriousLimit) + limit scenarios replayed on the real code + TLC trace validation",
              text="Sizes N-1, N, N+1, >>N on the wire and after inflation, at stream positions 1..3, in three protocols and both directions, are executed on the real code; traces must satisfy the specification's limit rule (no message above N delivered, every message of at most N accepted).",
              note="Memory clause measured separately by the runner (allocation delta) and reported in the evidence.", ref="6 C09"),
}

def check(pid):
    c = CLAIMS[pid]
    return {
        "property_id": pid,
        "quick_cmd": "./check %s --tier quick" % pid,
        "thorough_cmd": "./check %s --tier thorough" % pid,
        "evidence_file": "/verif/evidence/%s.json" % pid,
        "replay_cmd_template": "./check %s --replay {path}" % pid,
        "engine": "tlc+go-runner",
        "level_claimed": {"category": c.get("level", MC), "text": c["text"], "design_ref": "DESIGN.md section " + c["ref"]},
        "level_note": c["note"],
        "technique": c["technique"],
    }

hooks = []
try:
    out = subprocess.run(["git", "-C", "/repo", "log", "--format=%H %s"], capture_output=True, text=True).stdout
    hooks = [l.split()[0] for l in out.splitlines() if l.split(" ", 1)[1].startswith("verif:")]
except Exception:
    pass

m = {
  "version": 1,
  "setup_cmd": "./setup.sh",
  "hooks": {
    "guard": "verif",
    "enable": "go build -tags verif (the runner under /verif/harness is built from /repo's working tree with -tags verif)",
    "baseline_off_cmd": "cd /repo && GOFLAGS=-mod=mod go test -json -vet=off -count=1 -timeout 25m ./...",
    "source_commits": hooks,
    "add_only": True,
  },
  "engines": [{"name": "tlc+go-runner", "path": "/verif/check",
               "serves_properties": sorted(CLAIMS), "kind_free_text": "explicit TLA+ specification (spec/*.tla) model-checked by TLC; TLC-generated scenarios executed on the real code by a Go runner; recorded NDJSON traces validated by TLC against trace specifications"}],
  "checks": [check(p) for p in props if p in CLAIMS],
  "not_applicable": [{"property_id": p, "reason": "not claimed yet: the check for this property is still being built (see DESIGN.md section 12)"} for p in props if p not in CLAIMS],
  "notes": "Model-based verification with an explicit TLA+ specification; see DESIGN.md.",
}
json.dump(m, open(os.path.join(ROOT, "MANIFEST.json"), "w"), indent=1)
print("claimed:", sorted(CLAIMS))
