#!/usr/bin/env python3
"""recfix.py <prop> <n> <witness> <repair-note>: record the HEAD commit of /repo as a fixed finding + DESIGN row."""
import json,sys,subprocess
prop,n,witness,repair=sys.argv[1:5]
c=subprocess.check_output("git -C /repo rev-parse --short HEAD",shell=True,text=True).strip()
open('/verif/known_findings.jsonl','a').write(json.dumps(dict(property=prop,signature="-",status="fixed",commit=c,what="fixed: property=%s %s %s"%(prop,c,witness)))+"\n")
p='/verif/DESIGN.md'
s=open(p).read()
marker="\nNo finding is open:"
row="| %s | %s | %s | `%s` %s |\n" % (n,prop,witness,c,repair)
assert s.count(marker)==1
s=s.replace(marker,row.rstrip("\n")+"\n"+marker,1) if False else s
# insert row before the blank line preceding the marker
i=s.index(marker)
s=s[:i].rstrip("\n")+"\n"+row+s[i:]
open(p,'w').write(s)
print(c)
