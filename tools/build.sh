#!/bin/bash
cd "$(dirname "$0")/.." && python3 -c "
import sys; sys.path.insert(0,'.')
from lib import core
print(core.build_runner())"
