#!/usr/bin/env python3
"""Summarise REJECT lines of a kept work dir (VERIF_KEEP=1): tools/triage.py .work/C04-quick-123 c04"""
import re, glob, json, collections, sys
d, tag = sys.argv[1], sys.argv[2]
sigs = collections.Counter(); ex = {}
for sh in sorted(glob.glob(d + '/shard-%s-*.ndjson' % tag)):
    n = re.search(r'-(\d+)\.ndjson', sh).group(1)
    out = open(d + '/tlc-%s-%s/out.txt' % (tag, n)).read()
    lines = open(sh).read().split('\n')
    for m in re.finditer(r'<<"REJECT", (\d+)>>', out):
        l = int(m.group(1)) - 1
        k = l
        while not lines[k].startswith('{"ev":"reset"'):
            k -= 1
        sc = json.loads(lines[k])['sc']; ev = json.loads(lines[l])
        if 'frames' in sc:
            bodies = ".".join("%s%s" % (f['body'], 'c' if f['flag'] % 2 else '') + ("!" if f['corrupt'] else "") + str(f['len']) for f in sc['frames'])
            key = (sc['proto'], sc['side'], sc['shape'], sc['raw'], sc['tail'], ev['ev'], ev.get('ok'), ev.get('code'))
            ex.setdefault(key, (bodies, 'cut', sc['cut'], 'lim', sc['limit'], sc['enc'], sc['trailers'], [json.loads(x) for x in lines[k + 1:l + 1]][-5:]))
        else:
            brief = {kk: vv for kk, vv in ev.items() if kk not in ('stacks', 'stack', 'hdr', 'trl', 'problems')}
            if ev.get('problems'):
                brief['problems'] = ev['problems'][:2]
            key = tuple(str(sc.get(x)) for x in sys.argv[3:]) + (json.dumps(brief)[:300],)
            ex.setdefault(key, '')
        sigs[key] += 1
for k, v in sorted(sigs.items(), key=lambda x: -x[1])[:int(40)]:
    print(v, k, ex[k])
