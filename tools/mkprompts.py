#!/usr/bin/env python3
"""Writes the prompts for a further round of seeded changes: tools/mkprompts.py <outdir>.
Each prompt holds the property text and one line per earlier change of that property (so that the new ones differ);
nothing else from /verif."""
import glob, json, os, sys
ROOT = os.path.dirname(os.path.dirname(os.path.abspath(__file__)))
out = sys.argv[1]
TEMPLATE = open(os.path.join(ROOT, "tools", "prompt_template.txt")).read()
for line in open(os.path.join(ROOT, "properties.jsonl")):
    p = json.loads(line)
    pid = p["id"]
    earlier = []
    for d in sorted(glob.glob(os.path.join(ROOT, "seeded", pid + "-*"))):
        files, changed = [], []
        for l in open(os.path.join(d, "patch.diff"), errors="replace"):
            if l.startswith("+++ b/"):
                files.append(l[6:].strip())
            elif (l.startswith("+") or l.startswith("-")) and not l.startswith(("+++", "---")) and l[1:].strip():
                if len(changed) < 3:
                    changed.append(l.rstrip()[:110])
        what = ""
        md = os.path.join(d, "description.md")
        if os.path.exists(md):
            for l in open(md, errors="replace"):
                if l.strip():
                    what = l.strip().lstrip("# ")[:170]
                    break
        earlier.append(" - %s: %s  (changed lines: %s)" % (", ".join(files), what, " | ".join(changed)))
    wt = os.path.join(out, pid)
    txt = (TEMPLATE.replace("@WT@", wt).replace("@ID@", pid).replace("@TITLE@", p["title"])
           .replace("@STATEMENT@", p["statement"]).replace("@QUANT@", p["quantifier"]["text"])
           .replace("@EARLIER@", "\n".join(earlier)))
    open(os.path.join(out, pid + ".prompt.txt"), "w").write(txt)
print("written", out)
