#!/usr/bin/env python3
"""Confirm a candidate seeded change and run checks against it.

tools/seed.py <id> <patch.diff> <demo_test.go> <prop> [check props...]   (id e.g. C01-1)
 1. scratch worktree of /repo HEAD under /tmp/seedwt, patch applied
 2. existing suite passes with the patch (demo absent)
 3. demo fails with the patch, passes without
 4. every listed check is run with VERIF_REPO=<worktree>; exit codes recorded
Writes /verif/seeded/<id>/{patch.diff,demo_test.go,meta.json}; removes the worktree.
"""
import json, os, re, shutil, subprocess, sys, time
ROOT = os.path.dirname(os.path.dirname(os.path.abspath(__file__)))
ident, patch, demo, prop = sys.argv[1:5]
checks = sys.argv[5:] or [prop]
wt = "/tmp/seedwt-" + ident
env = dict(os.environ, GOFLAGS="-mod=mod", GOPROXY="off", GOSUMDB="off", GOTOOLCHAIN="local")

def sh(cmd, cwd=None, e=None, timeout=3600):
    r = subprocess.run(cmd, shell=True, cwd=cwd, env=e or env, capture_output=True, text=True, timeout=timeout)
    return r.returncode, r.stdout + r.stderr

subprocess.run("git -C /repo worktree remove --force %s" % wt, shell=True, capture_output=True)
rc, out = sh("git -C /repo worktree add -q --detach %s HEAD" % wt)
assert rc == 0, out
meta = dict(id=ident, property=prop, base=sh("git -C /repo rev-parse --short HEAD")[1].strip(), ran=[])
try:
    m = re.search(r"func (Test\w+)", open(demo).read())
    pkg = re.search(r"^package (\w+)", open(demo).read(), re.M).group(1)
    demoname = "zz_seed_demo_test.go"
    # demo on the clean tree
    shutil.copy(demo, os.path.join(wt, demoname))
    rc_clean, out_clean = sh("go test -vet=off -count=1 -timeout 10m -run 'Test' . 2>&1 | tail -5", cwd=wt)
    rc_clean, out_clean = sh("go test -vet=off -count=1 -timeout 10m -run '%s' ." % "|".join(re.findall(r"func (Test\w+)", open(demo).read())), cwd=wt)
    os.remove(os.path.join(wt, demoname))
    rc, out = sh("git apply %s" % os.path.abspath(patch), cwd=wt)
    if rc != 0:
        # written against an earlier HEAD: merge, and keep the rebased change
        rc, out = sh("git apply -3 %s && git reset -q" % os.path.abspath(patch), cwd=wt)
        if rc == 0:
            patch = "/tmp/%s.rebased.diff" % ident
            open(patch, "w").write(sh("git diff", cwd=wt)[1])
            meta["rebased"] = True
    meta["applies"] = rc == 0
    if rc != 0:
        print("PATCH DOES NOT APPLY", out); meta["note"] = out[-500:]
    else:
        rc_suite, out_suite = sh("go build ./... && go test -vet=off -count=1 -timeout 10m ./...", cwd=wt)
        shutil.copy(demo, os.path.join(wt, demoname))
        rc_demo, out_demo = sh("go test -vet=off -count=1 -timeout 10m -run '%s' ." % "|".join(re.findall(r"func (Test\w+)", open(demo).read())), cwd=wt)
        os.remove(os.path.join(wt, demoname))
        meta.update(suite_passes_with_change=rc_suite == 0, demo_fails_with_change=rc_demo != 0, demo_passes_without=rc_clean == 0)
        print("suite with change: rc=%d; demo with change: rc=%d; demo clean: rc=%d" % (rc_suite, rc_demo, rc_clean))
        if rc_suite != 0:
            print(out_suite[-1500:])
        if rc_clean != 0:
            print(out_clean[-1500:])
        for c in checks:
            t = time.time()
            e = dict(os.environ, VERIF_REPO=wt)
            rc, out = sh("./check %s --tier quick" % c, cwd=ROOT, e=e, timeout=7200)
            viol = [l for l in out.splitlines() if l.startswith("VIOLATION")]
            sigs = [l.strip() for l in out.splitlines() if l.strip().startswith("signature")]
            print("check %s: rc=%d (%d VIOLATION lines) %.0fs" % (c, rc, len(viol), time.time() - t))
            if rc == 2:
                print(out[-1500:])
            meta["ran"].append(dict(check=c, tier="quick", rc=rc, violations=len(viol), signatures=sigs[:3], wall_s=round(time.time() - t)))
finally:
    subprocess.run("git -C /repo worktree remove --force %s" % wt, shell=True, capture_output=True)
d = os.path.join(ROOT, "seeded", ident)
os.makedirs(d, exist_ok=True)
shutil.copy(patch, os.path.join(d, "patch.diff"))
shutil.copy(demo, os.path.join(d, "demo_test.go.txt"))
md = os.path.splitext(patch)[0].replace("mutant", "mutant") + ".md"
if os.path.exists(md):
    shutil.copy(md, os.path.join(d, "description.md"))
    meta["needs"] = "see description.md"
meta["detected_by"] = [r["check"] for r in meta["ran"] if r["rc"] == 1]
json.dump(meta, open(os.path.join(d, "meta.json"), "w"), indent=1)
print(json.dumps(dict(id=ident, detected_by=meta["detected_by"])))
