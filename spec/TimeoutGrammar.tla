--------------------------- MODULE TimeoutGrammar ---------------------------
(* The timeout header grammars of the Connect and gRPC protocols (C10), over     *)
(* sequences of one-character strings.  protocol_connect.go SetTimeout,          *)
(* protocol_grpc.go grpcParseTimeout.                                            *)
EXTENDS Integers, Sequences
Digits == {"0", "1", "2", "3", "4", "5", "6", "7", "8", "9"}
DigitVal(c) == CASE c = "0" -> 0 [] c = "1" -> 1 [] c = "2" -> 2 [] c = "3" -> 3 [] c = "4" -> 4
                 [] c = "5" -> 5 [] c = "6" -> 6 [] c = "7" -> 7 [] c = "8" -> 8 [] c = "9" -> 9
RECURSIVE Num(_, _)
Num(s, n) == IF n = 0 THEN 0 ELSE Num(s, n - 1) * 10 + DigitVal(s[n])     \* value of the first n digits
AllDigits(s, n) == \A i \in 1..n : s[i] \in Digits
Units == {"H", "M", "S", "m", "u", "n"}
\* gRPC: 1..8 digits followed by a unit
GrpcGrammatical(t) == Len(t) \in 2..9 /\ AllDigits(t, Len(t) - 1) /\ t[Len(t)] \in Units
\* Connect: 1..10 digits of milliseconds
ConnectGrammatical(t) == Len(t) \in 1..10 /\ AllDigits(t, Len(t))
\* the deadline a grammatical timeout stands for, in milliseconds; "unbounded" if it cannot be represented,
\* "big" when the model's 32-bit integers cannot hold it (the check is then only "at least 2^30 ms or none")
DL(k, ms) == [k |-> k, ms |-> ms]
GrpcMillis(t) ==
  LET n == Num(t, Len(t) - 1) u == t[Len(t)] IN
  IF u = "H" THEN (IF n > 2562047 THEN DL("unbounded", 0) ELSE IF n > 250 THEN DL("big", 0) ELSE DL("ms", n * 3600000))
  ELSE IF u = "M" THEN (IF n > 15000 THEN DL("big", 0) ELSE DL("ms", n * 60000))
  ELSE IF u = "S" THEN (IF n > 1000000 THEN DL("big", 0) ELSE DL("ms", n * 1000))
  ELSE IF u = "m" THEN DL("ms", n)
  ELSE IF u = "u" THEN DL("ms", n \div 1000)
  ELSE DL("ms", n \div 1000000)
AllZero(t) == \A i \in 1..Len(t) : t[i] = "0"
ConnectMillis(t) == IF AllZero(t) THEN DL("ms", 0) ELSE IF Len(t) = 10 THEN DL("big", 0) ELSE DL("ms", Num(t, Len(t)))

\* granularity (ms, rounded up) of a gRPC timeout written with this unit
GrpcGranMs(t) == LET u == t[Len(t)] IN
                 IF u = "H" THEN 3600000 ELSE IF u = "M" THEN 60000 ELSE IF u = "S" THEN 1000 ELSE 1
=============================================================================
