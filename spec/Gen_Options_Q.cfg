CONSTANT Names <- NamesQ
CONSTANT MaxLen <- MaxLenQ
SPECIFICATION GenSpec
INVARIANT Emit
CHECK_DEADLOCK FALSE
