------------------------------- MODULE Options -------------------------------
(***************************************************************************)
(* Option values as trees, their application as a left fold over the        *)
(* configuration (option.go), the interceptor chain that results            *)
(* (interceptor.go newChain / chainWith) and the order in which the layers  *)
(* of a real call run (C16); WithRecover as one more interceptor (C19,      *)
(* recover.go).                                                             *)
(*                                                                         *)
(* An option is [t |-> "ics", v |-> Seq(name | "nil")]  (WithInterceptors)  *)
(*           or [t |-> "group", v |-> Seq(option)]      (WithOptions, ...)  *)
(* An interceptor value is Nil, [t |-> "leaf", n |-> name] or               *)
(* [t |-> "chain", v |-> Seq(interceptor value)] -- stored innermost first, *)
(* exactly like chain.interceptors.                                         *)
(***************************************************************************)
EXTENDS Integers, Sequences, FiniteSets, TLC

VARIABLES sc, pc, todo, cur, obs
vars == <<sc, pc, todo, cur, obs>>

Nil == [t |-> "nil"]
Leaf(n) == [t |-> "leaf", n |-> n]
Reverse(s) == [i \in 1..Len(s) |-> s[Len(s) - i + 1]]

(* newChain: drop nil entries, store in reverse *)
RECURSIVE DropNil(_)
DropNil(s) == IF s = <<>> THEN <<>> ELSE IF Head(s) = Nil THEN DropNil(Tail(s)) ELSE <<Head(s)>> \o DropNil(Tail(s))
NewChain(ics) == [t |-> "chain", v |-> Reverse(DropNil(ics))]
AsValue(n) == IF n = "nil" THEN Nil ELSE Leaf(n)
(* interceptorsOption.chainWith *)
ChainWith(names, current) ==
  LET ics == [i \in 1..Len(names) |-> AsValue(names[i])] IN
  IF Len(ics) = 0 THEN current
  ELSE IF current = Nil /\ Len(ics) = 1 THEN ics[1]
  ELSE IF current = Nil THEN NewChain(ics)
  ELSE NewChain(<<current>> \o ics)

(* the layers of a value from outermost to innermost: chain.Wrap* applies stored entries first-to-last,
   so the last stored one (the first declared) ends up outermost *)
RECURSIVE Layers(_)
Layers(x) == IF x.t = "nil" THEN <<>>
             ELSE IF x.t = "leaf" THEN <<x.n>>
             ELSE LET RECURSIVE Cat(_)
                      Cat(i) == IF i = 0 THEN <<>> ELSE Layers(x.v[i]) \o Cat(i - 1)
                  IN Cat(Len(x.v))

(* declaration order of an option sequence, nil entries dropped *)
RECURSIVE Flatten(_)
Flatten(opts) ==
  IF opts = <<>> THEN <<>>
  ELSE (IF Head(opts).t = "ics" THEN SelectSeq(Head(opts).v, LAMBDA n : n # "nil") ELSE Flatten(Head(opts).v))
       \o Flatten(Tail(opts))

(* ---- state machine: options are applied one at a time (groups are unfolded in place) ---- *)
InitWith(s) == sc = s /\ pc = "apply" /\ todo = s.opts /\ cur = Nil /\ obs = <<>>
ResetTo(s)  == sc' = s /\ pc' = "apply" /\ todo' = s.opts /\ cur' = Nil /\ obs' = <<>>
ApplyIcs   == /\ pc = "apply" /\ todo # <<>> /\ Head(todo).t = "ics"
              /\ cur' = ChainWith(Head(todo).v, cur) /\ todo' = Tail(todo) /\ UNCHANGED <<sc, pc, obs>>
ApplyGroup == /\ pc = "apply" /\ todo # <<>> /\ Head(todo).t = "group"
              /\ todo' = Head(todo).v \o Tail(todo) /\ UNCHANGED <<sc, pc, cur, obs>>
(* the call: what each observable layer order must be, given the side and the shape *)
Expected(s, layers) ==
  IF s.shape = "unary" THEN [enter |-> layers, exit |-> Reverse(layers), sendpre |-> <<>>, recvpost |-> <<>>]
  ELSE IF s.side = "client" THEN [enter |-> layers, exit |-> <<>>, sendpre |-> layers, recvpost |-> Reverse(layers)]
  ELSE [enter |-> layers, exit |-> Reverse(layers), sendpre |-> Reverse(layers), recvpost |-> layers]
\* the library's own recover interceptor "R" is a layer like any other but does not log
NoR(q) == SelectSeq(q, LAMBDA n : n # "R")
\* "U" is a UnaryInterceptorFunc: a layer of unary calls only -- on a streaming call it is transparent, and the
\* layers around it are wrapped as if it were not there (interceptor.go UnaryInterceptorFunc.WrapStreaming*)
Visible(s, q) == SelectSeq(q, LAMBDA n : n # "R" /\ (s.shape = "stream" => n # "U"))
Call == /\ pc = "apply" /\ todo = <<>>
        /\ obs' = Expected(sc, Visible(sc, Layers(cur))) /\ pc' = "done" /\ UNCHANGED <<sc, todo, cur>>
Next == ApplyIcs \/ ApplyGroup \/ Call

(* ---- C16 ---- *)
Done == pc = "done"
DeclarationOrder == Done => obs.enter = Visible(sc, Flatten(sc.opts))
ExactlyOnce == Done => \A i, j \in 1..Len(obs.enter) : i # j => obs.enter[i] # obs.enter[j]
FirstIsOutermost == Done /\ Len(obs.enter) > 0 =>
   /\ obs.enter[1] = Visible(sc, Flatten(sc.opts))[1]
   /\ (sc.shape = "unary" => obs.exit[Len(obs.exit)] = Visible(sc, Flatten(sc.opts))[1])

(* ---- C19: WithRecover is the interceptor "R" ---- *)
\* sc.panic = [value : "none"|"nil"|"error"|"string"|"struct"|"abort", at : 0.. (sends before the panic)]
Range(q) == {q[i] : i \in 1..Len(q)}
\* ("fail": the handler does not panic, it returns an ordinary error at that point -- WithRecover has nothing to do)
Recovers(s) == "panic" \in DOMAIN s /\ s.panic.value \notin {"none", "abort", "fail"} /\ "R" \in Range(Flatten(s.opts))
Fails(s) == "panic" \in DOMAIN s /\ s.panic.value = "fail"
HandleCalls(s) == IF Recovers(s) THEN 1 ELSE 0
Panics(s) == "panic" \in DOMAIN s /\ s.panic.value \notin {"none", "fail"}
\* layers declared before R return normally when R converts the panic; everything else is unwound
RECURSIVE Before(_, _)
Before(q, n) == IF q = <<>> \/ Head(q) = n THEN <<>> ELSE <<Head(q)>> \o Before(Tail(q), n)
ExitOnPanic(s) == IF Recovers(s) THEN Reverse(Visible(s, Before(Flatten(s.opts), "R"))) ELSE <<>>
\* responses the client still gets before the error
GotBefore(s) == IF s.kind \in {"unary", "client"} THEN 0 ELSE s.panic.at
=============================================================================
