SPECIFICATION MCSpec
INVARIANTS AtMostOnce RefusedNeverRuns AcceptedIffAdvertised NeverSuccessOnGarbage BadTimeoutRejected
CHECK_DEADLOCK FALSE
