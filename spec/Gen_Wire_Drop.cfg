SPECIFICATION GenDropSpec
INVARIANT Emit
CHECK_DEADLOCK FALSE
