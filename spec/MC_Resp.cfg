SPECIFICATION MCSpec
INVARIANTS NeverZero Non200Fails Decided
CHECK_DEADLOCK FALSE
