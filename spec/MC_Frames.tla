------------------------------ MODULE MC_Frames ------------------------------
(* Bounded scenario set for the design check of Frames (C01, C03, C04, C09). *)
EXTENDS Frames

F(flag, len, body, id) == [flag |-> flag, len |-> len, ilen |-> len, body |-> body, id |-> id, corrupt |-> FALSE]
FC(flag, len, ilen, body, id, cor) == [flag |-> flag, len |-> len, ilen |-> ilen, body |-> body, id |-> id, corrupt |-> cor]
Msg(i)   == F(0, 3, "msg", i)
Big(i)   == F(0, 8, "msg", i)
Zero     == F(0, 0, "zero", 0)
ZeroC    == F(1, 0, "zero", 0)
ZeroG    == FC(1, 20, 0, "zero", 0, FALSE)   \* the zero message, really compressed: a non-empty frame that inflates to nothing
CMsg(i)  == FC(1, 4, 6, "msg", i, FALSE)     \* wire 4 bytes, inflates to 6
CBad     == FC(1, 4, 4, "msg", 9, TRUE)
Bad      == F(0, 2, "bad", 0)
TFlag(p) == IF p = "grpcweb" THEN 128 ELSE 2
EndOK(p)  == F(TFlag(p), 2, "endok", 0)
EndErr(p) == F(TFlag(p), 2, "enderr", 0)
EndBad(p) == F(TFlag(p), 2, "endbad", 0)
EndOKC(p) == FC(TFlag(p) + 1, 3, 2, "endok", 0, FALSE)
Junk      == F(4, 1, "endok", 0)

Bodies(p) ==
  IF p = "grpc"
  THEN { <<Msg(1)>>, <<Zero, Msg(2), Zero>>, <<>>, <<Bad>>, <<Msg(1), Junk>>, <<CMsg(1), Msg(2)>>,
         <<CBad>>, <<Big(1)>>, <<Msg(1), ZeroC, Big(2)>>, <<Bad, Msg(2)>>, <<Big(1), Msg(2)>>, <<CMsg(1), ZeroG, Msg(2)>> }
  ELSE { <<Msg(1), EndOK(p)>>, <<Zero, Msg(2), Zero, EndOK(p)>>, <<Msg(1), Msg(2)>>, <<>>, <<EndOK(p)>>,
         <<Bad, EndOK(p)>>, <<Msg(1), EndErr(p)>>, <<Junk>>, <<CMsg(1), EndOK(p)>>, <<CBad, EndOK(p)>>,
         <<Msg(1), EndBad(p)>>, <<Msg(1), EndOK(p), Msg(2)>>, <<Big(1), EndOKC(p)>>, <<Msg(1), ZeroC, EndOK(p)>>,
         \* a message after one that cannot be delivered: what comes after the failure (C14 stickiness, C03)
         <<Bad, Msg(2), EndOK(p)>>, <<Big(1), Msg(2), EndOK(p)>>, <<CMsg(1), ZeroG, EndOK(p)>> }

Base(p, sd, lim, enc, b, c, t, tr) ==
  [proto |-> p, side |-> sd, shape |-> "stream", raw |-> FALSE, reuse |-> TRUE, limit |-> lim, enc |-> enc,
   frames |-> b, cut |-> c, tail |-> t, trailers |-> tr]

BLen(b) == Sum([raw |-> FALSE], b, Len(b))
Tails(b, c) == IF c > BLen(b) THEN {"eof"} ELSE {"eof", "ueof", "err"}
\* the context ending while the response is being received (client side)
TailsOn(sd, b, c) == Tails(b, c) \cup (IF sd = "client" /\ c <= BLen(b) THEN {"ctxc", "ctxd"} ELSE {})
Trs(p, sd, b, c, t) == IF p = "grpc" /\ sd = "client" /\ t = "eof" /\ c >= BLen(b) THEN {"none", "ok", "err"} ELSE {"none"}

StreamInit ==
  \E p \in {"connect", "grpc", "grpcweb"}, sd \in {"client", "handler"}, lim \in {0, 3, 5}, enc \in {"none", "gzip"} :
    \E b \in Bodies(p) : \E c \in 0..(BLen(b) + 1) : \E t \in TailsOn(sd, b, c) : \E tr \in Trs(p, sd, b, c, t) :
      InitWith(Base(p, sd, lim, enc, b, c, t, tr))

RawFrames == {Msg(1), Big(1), Zero, Bad, CMsg(1), CBad}
RawInit ==
  \E sd \in {"client", "handler"}, lim \in {0, 3, 5}, enc \in {"none", "gzip"}, f \in RawFrames :
    \E c \in 0..(f.len + 1) : \E t \in TailsOn(sd, <<[len |-> f.len - 5]>>, c) :
      /\ (enc = "none" <=> ~Compressed(f.flag))   \* unary Connect: the header alone says "compressed"
      /\ InitWith([proto |-> "connect", side |-> sd, shape |-> "unary", raw |-> TRUE, reuse |-> FALSE, limit |-> lim,
                   enc |-> enc, frames |-> <<f>>, cut |-> c, tail |-> t, trailers |-> "none"])

MCInit == StreamInit \/ RawInit
MCSpec == MCInit /\ [][Next]_vars
NoScenarios == {}
MCZeroShortcut == FALSE
MCZeroShortcutBug == TRUE
=============================================================================
