------------------------------- MODULE TraceGen -------------------------------
(* Trace specification for Gen (C17): reset{sc} gen{ok, deterministic, parses, builds, services:[{prefix, methods:[{handle, spec, url, ctor, call}]}]} *)
EXTENDS Gen, TraceBase
TraceInit == l = 1 /\ failed = FALSE /\ InitWith([pkg |-> "", services |-> <<>>])
TReset == Ev("reset") /\ ResetTo(Cur.sc) /\ Consume /\ failed' = FALSE
TGen == /\ Ev("gen") /\ Generate
        /\ Cur.ok /\ Cur.deterministic /\ Cur.parses /\ Cur.builds
        /\ IF Len(sc.services) = 0 THEN Cur.files = 0
           ELSE /\ Cur.files = 1
                /\ Len(Cur.services) = Len(routes')
                /\ \A i \in 1..Len(routes') :
                     /\ Cur.services[i].prefix = routes'[i].prefix
                     /\ Len(Cur.services[i].methods) = Len(routes'[i].methods)
                     /\ \A j \in 1..Len(routes'[i].methods) :
                          LET g == Cur.services[i].methods[j] w == routes'[i].methods[j] IN
                          g.handle = w.handle /\ g.spec = w.spec /\ g.url = w.url /\ g.ctor = w.ctor /\ g.call = w.call
\* the checked-in generated code is what the generator emits for the checked-in descriptors
TGolden == Ev("golden") /\ Cur.same /\ UNCHANGED vars
Normal == TReset \/ ((TGen \/ TGolden) /\ Consume /\ UNCHANGED failed)
TraceNext == \/ (~failed /\ Normal)
             \/ (~failed /\ ~ENABLED Normal /\ Reject /\ UNCHANGED vars)
             \/ (SkipRest /\ UNCHANGED vars)
             \/ (failed /\ TReset)
TraceSpec == TraceInit /\ [][TraceNext]_<<vars, l, failed>>
=============================================================================
