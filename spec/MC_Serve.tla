------------------------------ MODULE MC_Serve ------------------------------
EXTENDS Serve, Json
Kinds == {"unary", "client", "server", "bidi"}
Chars(s) == s     \* timeouts are written as sequences of one-character strings
CTs == {"application/proto", "application/json", "application/verifc", "application/connect+proto",
        "application/connect+json", "application/connect+verifc", "application/grpc", "application/grpc+proto",
        "application/grpc+json", "application/grpc+verifc", "application/grpc-web", "application/grpc-web+proto",
        "application/grpc-web+json", "application/grpc-web+verifc",
        \* a codec whose name has a structured-syntax suffix of its own, and what is left of it after the last "+"
        "application/vnd.verif+bin", "application/connect+vnd.verif+bin", "application/grpc+vnd.verif+bin",
        "application/grpc-web+vnd.verif+bin", "application/bin", "application/connect+bin", "application/grpc+bin",
        \* near misses
        "", "text/plain", "application/proto; charset=utf-8", "APPLICATION/PROTO", "application/protox",
        "application/connect", "application/connect+", "application/grpc+", "application/grpc-web+",
        "application/grpc+proto ", "Application/Grpc", "application/grpc-web-text", "application/x-protobuf",
        "application/connect+proto, application/json"}
GrpcTimeouts == { <<>>, <<"0", "S">>, <<"0", "0", "0", "n">>, <<"1", "n">>, <<"5", "S">>, <<"3", "0", "0", "0", "0", "0", "m">>, <<"7", "0", "0", "0", "0", "0", "0", "u">>,
                  <<"2", "0", "M">>, <<"1", "H">>, <<"9", "9", "9", "9", "9", "9", "9", "9", "H">>,
                  <<"8", "0", "0", "0", "0", "0", "0", "0", "n">>,
                  \* malformed
                  <<"5">>, <<"5", "X">>, <<"S">>, <<"a", "b", "c", "S">>, <<"+", "5", "S">>, <<"-", "5", "S">>,
                  <<"5", ".", "5", "S">>, <<" ", "5", "S">>, <<"5", " ", "S">>, <<"5", "s">>,
                  <<"1", "2", "3", "4", "5", "6", "7", "8", "9", "S">>, <<"5", "S", "S">>,
                  \* more digits than the grammar allows, although the value is small
                  <<"0", "0", "0", "0", "0", "0", "0", "0", "5", "S">>, <<"0", "0", "0", "0", "0", "0", "0", "0", "0", "n">>,
                  \* ... also when the unit is hours and the value beyond what a duration holds
                  <<"1", "2", "3", "4", "5", "6", "7", "8", "9", "H">>, <<"1", "0", "0", "0", "0", "0", "0", "0", "0", "0", "H">>,
                  \* hours around and beyond what a duration holds (2562047 h): products that wrap to negative and to positive
                  <<"2", "5", "6", "2", "0", "4", "7", "H">>, <<"2", "5", "6", "2", "0", "4", "8", "H">>,
                  <<"5", "1", "2", "4", "0", "9", "6", "H">>, <<"1", "0", "2", "4", "8", "1", "9", "2", "H">>,
                  <<"7", "6", "8", "6", "1", "4", "4", "H">> }
ConnectTimeouts == { <<>>, <<"0">>, <<"0", "0", "0", "0", "0", "0", "0", "0", "0", "0">>, <<"1">>, <<"5", "0", "0", "0">>, <<"3", "0", "0", "0", "0", "0">>,
                     <<"9", "9", "9", "9", "9", "9", "9", "9", "9", "9">>,
                     <<"4", "2", "9", "4", "9", "6", "7", "2", "9", "5">>, <<"4", "2", "9", "4", "9", "6", "7", "2", "9", "6">>,
                     <<"a", "b", "c">>, <<"+", "5", "0", "0", "0">>, <<"-", "5", "0", "0", "0">>,
                     <<"5", "0", "0", "0", "m", "s">>, <<"5", ".", "5">>, <<" ", "5", "0", "0", "0">>,
                     <<"1", "2", "3", "4", "5", "6", "7", "8", "9", "0", "1">>, <<"0", "x", "1", "0">>,
                     <<"0", "0", "0", "0", "0", "0", "0", "0", "0", "0", "5">> }
Mk(k, me, ma, ct, cd, enc, th, to, b, lim) ==
  [kind |-> k, method |-> me, major |-> ma[1], minor |-> ma[2], ctype |-> ct, codecs |-> cd, enc |-> enc, theader |-> th,
   timeout |-> to, body |-> b, limit |-> lim]
\* dispatch: methods x versions x content types x codec sets
InitDispatch ==
  \E k \in Kinds, me \in {"POST", "GET", "PUT", "DELETE", "OPTIONS", "post", "HEAD"}, ma \in {<<1, 0>>, <<1, 1>>, <<2, 0>>}, ct \in CTs,
     cd \in {<<>>, <<"verifc">>, <<"verifc", "vnd.verif+bin">>} :
    InitWith(Mk(k, me, ma, ct, cd, "none", "none", <<>>, "good", 0))
\* timeouts
InitTimeout ==
  \E k \in Kinds, ct \in {"application/proto", "application/connect+proto", "application/grpc", "application/grpc-web+proto"},
     th \in {"connect", "grpc"}, enc \in {"none", "unknown"} :
    \E to \in (IF th = "connect" THEN ConnectTimeouts ELSE GrpcTimeouts) :
      InitWith(Mk(k, "POST", <<2, 0>>, ct, <<>>, enc, th, to, "good", 0))
\* bodies
InitBody ==
  \E k \in Kinds, ct \in {"application/proto", "application/json", "application/connect+proto", "application/connect+json",
                          "application/grpc", "application/grpc+json", "application/grpc-web+proto", "application/grpc-web+verifc"},
     enc \in {"none", "gzip", "unknown", "GZIP"}, lim \in {0, 64},
     b \in {"good", "two", "empty", "garbage", "truncated", "badmsg", "badutf8", "oversize", "cnoenc", "cflagplain", "msgthenbad", "flagged", "flagged0", "manyok"} :
    /\ (b = "cflagplain" => ~(k = "unary" /\ ct \in {"application/proto", "application/json"}) /\ enc \in {"none", "gzip"})
    /\ (b = "oversize" => lim > 0)
    \* a unary Connect body is one message: "several frames" classes do not exist there
    /\ (k = "unary" /\ ct \in {"application/proto", "application/json"} => b \notin {"two", "msgthenbad", "truncated", "flagged", "flagged0"})
    /\ InitWith(Mk(k, "POST", <<2, 0>>, ct, <<"verifc">>, enc, "none", <<>>, b, lim))
MCInit == InitDispatch \/ InitTimeout \/ InitBody
MCSpec == MCInit /\ [][Next]_vars
GenSpec == MCInit /\ [][FALSE]_vars
Emit == pc = "g505" => PrintT(ToJson(sc))
=============================================================================
