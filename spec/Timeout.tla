---------------------------- MODULE Timeout ----------------------------
EXTENDS Integers

VARIABLE
  \* @type: Int;
  d

MaxDur == 9223372036854775807
\* unit sizes in ns
U(i) == CASE i = 1 -> 1
          [] i = 2 -> 1000
          [] i = 3 -> 1000000
          [] i = 4 -> 1000000000
          [] i = 5 -> 60000000000
          [] i = 6 -> 3600000000000

\* first unit whose quotient has < 8 digits
Fits(i) == d \div U(i) < 10000000
UnitOf == IF Fits(1) THEN 1 ELSE IF Fits(2) THEN 2 ELSE IF Fits(3) THEN 3
          ELSE IF Fits(4) THEN 4 ELSE IF Fits(5) THEN 5 ELSE IF Fits(6) THEN 6 ELSE 0
Num == d \div U(UnitOf)
Decoded == Num * U(UnitOf)

Init == d \in 1..MaxDur
Next == d' \in 1..MaxDur

Inv == /\ UnitOf # 0
       /\ Num <= 99999999 /\ Num >= 0
       /\ Decoded <= d
       /\ d - Decoded < U(UnitOf)
       /\ (d - Decoded) * 10000 < d \/ UnitOf = 1
=========================================================================
