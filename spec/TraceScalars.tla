---------------------------- MODULE TraceScalars ----------------------------
(* Trace specification for Scalars (C18, C10): reset{sc} result{...}.          *)
EXTENDS Scalars, TraceBase
TraceInit == l = 1 /\ failed = FALSE /\ InitWith([op |-> "none"])
TReset == Ev("reset") /\ ResetTo(Cur.sc) /\ Consume /\ failed' = FALSE

\* the timeout header a client sent for a deadline `secs` seconds (+ d ns < 1 s) away, given the measured slack
ConnectHeaderOK(secs, chars, present, slack) ==
  IF secs >= 10000000 THEN ~present                       \* more than 10 digits of milliseconds: send no timeout
  ELSE /\ present /\ ConnectGrammatical(chars)
       /\ IF secs < 2000000
          THEN Num(chars, Len(chars)) <= secs * 1000 + 999 /\ Num(chars, Len(chars)) >= secs * 1000 - slack - 1
          ELSE Len(chars) > 3 /\ Num(chars, Len(chars) - 3) <= secs /\ Num(chars, Len(chars) - 3) >= secs - (slack \div 1000) - 1
GrpcHeaderOK(secs, chars, present, slack) ==
  /\ present /\ GrpcGrammatical(chars)
  /\ LET m == GrpcMillis(chars) IN
     IF secs < 1000000
     THEN m.k = "ms" /\ m.ms <= secs * 1000 + 999 /\ m.ms >= secs * 1000 - slack - GrpcGranMs(chars)
     ELSE m.k \in {"big", "ms"}       \* beyond the model's 32-bit integers: grammar only (the bound is Timeout.tla's)

TResult ==
  /\ Ev("result") /\ Step
  /\ CASE sc.op = "pct"      -> Cur.enc = res'.enc /\ Cur.dec = sc.in
       [] sc.op = "pctany"   -> Cur.returned
       [] sc.op = "code"     -> Cur.text = res'.text /\ Cur.marshal = res'.text /\ Cur.http = res'.http /\ Cur.rt
       [] sc.op = "parse"    -> /\ (sc.form = "name" => Cur.ok /\ Cur.c = sc.n)
                                /\ (sc.form = "num" /\ sc.n \notin 1..16 => Cur.ok /\ Cur.c = sc.n)
                                /\ (sc.form = "junk" => ~Cur.ok)
       [] sc.op = "b64"      -> Cur.ok /\ Cur.rt = sc.in /\ Cur.rtpadded = sc.in /\ Cur.unpadded
       [] sc.op = "timeout"  -> Cur.ok /\ Cur.text = res'.text
       [] sc.op \in {"sweep_codes", "sweep_pct", "sweep_timeout"} -> Cur.bad = 0
       [] sc.op = "grpcmsg_e2e" -> Cur.enc = PctEncode(sc.in) /\ Cur.dec = sc.in
       \* (the header is a function of this call's deadline alone: sc.prev, an earlier use of the same Request, is
       \*  not mentioned; one value at most, and never the other protocol's header)
       [] sc.op = "deadline_e2e" -> /\ IF sc.proto = "connect" THEN ConnectHeaderOK(sc.secs, Cur.chars, Cur.present, Cur.slack_ms)
                                       ELSE GrpcHeaderOK(sc.secs, Cur.chars, Cur.present, Cur.slack_ms)
                                    /\ Cur.count = IF Cur.present THEN 1 ELSE 0
       [] sc.op = "nodeadline_e2e" -> ~Cur.present /\ Cur.count = 0
       \* C12: both ends see the procedure and stream type of THIS call, whatever the Request went through before
       [] sc.op = "spec_reuse" -> /\ Cur.ok
                                  /\ Cur.cproc = "/verif.v1.B/Second" /\ Cur.cisclient /\ Cur.cstype = 0
                                  /\ Cur.hproc = Cur.cproc /\ ~Cur.hisclient /\ Cur.hstype = Cur.cstype
       [] sc.op = "errmeta_limit" -> ~Cur.ok /\ Cur.code \in 1..16 /\ Cur.meta = <<"m1", "m2">>
       \* the timeout that goes out with the request is what is left THEN (waited_ms after the stream was created):
       \* never longer, and shorter by little (granularity + the time between computing the header and sending it)
       [] sc.op = "deadline_wait" ->
            /\ Cur.present
            \* (the header is computed somewhere between before_ms -- the operation that sends the request starts -- and
            \*  waited_ms -- the transport has the request: never longer than what was left at the first instant, and not
            \*  much shorter than what was left at the second)
            /\ LET left == sc.secs * 1000 - Cur.waited_ms
                   leftmax == sc.secs * 1000 - Cur.before_ms
                   sent == IF sc.proto = "connect" THEN Num(Cur.chars, Len(Cur.chars)) ELSE GrpcMillis(Cur.chars).ms
               IN /\ (sc.proto = "connect" => ConnectGrammatical(Cur.chars))
                  /\ (sc.proto # "connect" => GrpcGrammatical(Cur.chars) /\ GrpcMillis(Cur.chars).k = "ms")
                  /\ sent <= leftmax /\ sent >= left - 250
       \* the second exchange on a reused Request is consistent on its own: compressed iff at least the threshold, the
       \* header names an algorithm if the body is compressed (for unary Connect: exactly then), the message arrives
       [] sc.op = "enc_reuse" -> /\ Cur.ok1 /\ Cur.ok /\ Cur.same
                                 /\ Cur.bodycomp = Cur.large
                                 /\ (Cur.bodycomp => Cur.hdrenc)
                                 /\ (sc.proto = "connect" => Cur.hdrenc = Cur.bodycomp)
       \* a client that could not be configured: every API reports that error, the transport is never reached
       \* C15: the handler's context ended on the server side alone and the handler returned ctx.Err(): the client is told
       \* (with "early" the library itself answers before the handler function runs)
       [] sc.op = "handler_ctx" ->
            /\ ~Cur.stuck /\ ~Cur.ok
            /\ Cur.code = (IF sc.text = "servercancel" THEN 1 ELSE 4)
            /\ (sc.text # "early" => Cur.hctx /\ Cur.got = sc.n)
            \* (the unary handler function is not even called: the library answers for it)
            /\ (sc.text = "early" /\ sc.used = "unary" => ~Cur.hctx)
       \* C14 / C15: Do returns a response after the call's context was cancelled: its body is closed, nothing hangs,
       \* and the call does not succeed with anything but canceled
       [] sc.op = "late_response" -> ~Cur.stuck /\ Cur.closed /\ ~Cur.ok /\ Cur.code = 1
       \* C14: a Receive that fails while the call is alive (the message is above the read limit) returns; so do the
       \* program's closing operations
       [] sc.op = "recvfail_live" -> /\ Cur.stuck_at = "" /\ Len(Cur.codes) = 4
                                     /\ Cur.codes[1] = 0 /\ Cur.codes[2] \in {3, 8}
                                     \* C04: the handler, waiting for the next request message, does not see a clean end
                                     \* of a request stream whose client failed without closing it
                                     /\ Cur.hend = "error"
       \* C13: Receive delivers while a Send on the same stream is blocked; the Send completes once the handler reads
       [] sc.op = "recv_while_send" -> Cur.recv_ok /\ ~Cur.recv_late /\ Cur.send_ok /\ ~Cur.gave_up
       \* C01: nested messages arrive with the same content, both directions, every kind
       [] sc.op = "nested_e2e" -> Cur.same
       \* C12: the three views of a streaming call's Spec agree (stream type 1 = client, 2 = server, 3 = bidi)
       [] sc.op = "spec_kinds" ->
            LET t == CASE sc.used = "client" -> 1 [] sc.used = "server" -> 2 [] OTHER -> 3 IN
            /\ Cur.ok
            /\ Cur.cproc = "/verif.v1.K/Method" /\ Cur.hproc = Cur.cproc /\ Cur.uproc = Cur.cproc
            /\ Cur.cstype = t /\ Cur.hstype = t /\ Cur.ustype = t
            /\ Cur.cisclient /\ ~Cur.hisclient /\ ~Cur.uisclient
       [] sc.op = "client_init_fail" ->
            /\ Cur.reached = 0 /\ Len(Cur.codes) >= 8
            /\ IF sc.used = "badurl"
               \* (a URL the request cannot be built from: nothing panics or blocks, every operation that waits for a
               \*  response -- CallUnary, CloseAndReceive, the server stream's Err, the bidi Receive -- fails, coded)
               THEN Len(Cur.codes) = 10 /\ \A i \in {1, 3, 5, 8} : Cur.codes[i] \in 1..16
               ELSE \A i \in 1..Len(Cur.codes) : Cur.codes[i] = Cur.codes[1] /\ Cur.codes[i] \in 1..16
       [] OTHER -> FALSE

Normal == TReset \/ (TResult /\ Consume /\ UNCHANGED failed)
TraceNext == \/ (~failed /\ Normal)
             \/ (~failed /\ ~ENABLED Normal /\ Reject /\ UNCHANGED vars)
             \/ (SkipRest /\ UNCHANGED vars)
             \/ (failed /\ TReset)
TraceSpec == TraceInit /\ [][TraceNext]_<<vars, l, failed>>
=============================================================================
