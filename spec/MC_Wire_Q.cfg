SPECIFICATION MCSpecQ
INVARIANTS ExactDelivery ErrorNeverSuccess WellFormed NegotiationSound MetaVisible
CHECK_DEADLOCK FALSE
