----------------------------- MODULE MC_Scalars -----------------------------
EXTENDS Scalars, Json
Alphabet == {0, 31, 32, 37, 65, 126, 127, 128, 195, 255, 50, 10}
Strs == {<<>>} \cup {<<a>> : a \in Alphabet} \cup {<<a, b>> : a \in Alphabet, b \in Alphabet}
        \cup {<<a, b, c>> : a \in Alphabet, b \in Alphabet, c \in Alphabet}
Codes == 0..40 \cup {100, 255, 256, 65535, 65536, 2147483646, 2147483647}
Durs == {1, 9, 999, 1000, 1001, 9999999, 10000000, 10000001, 99999999, 100000000, 999999999, 1000000000,
         1000000001, 2147483647, 59999999, 60000000, 123456789, 987654321, 19999999, 1999999999}
DecIn == {37, 52, 49, 71, 255, 65}     \* '%' '4' '1' 'G' 0xFF 'A'
Dec3 == {37, 52, 71}
DecStrs == {<<>>} \cup {<<a>> : a \in DecIn} \cup {<<a, b>> : a \in DecIn, b \in DecIn}
           \cup {<<a, b, c>> : a \in DecIn, b \in DecIn, c \in DecIn}
           \cup {<<a, b, c, d>> : a \in DecIn, b \in DecIn, c \in DecIn, d \in DecIn}
           \cup {<<a, b, c, d, e>> : a \in Dec3, b \in Dec3, c \in Dec3, d \in Dec3, e \in Dec3}
           \cup {<<a, b, c, d, e, f>> : a \in Dec3, b \in Dec3, c \in Dec3, d \in Dec3, e \in Dec3, f \in Dec3}
Parse(t, f, n) == [op |-> "parse", text |-> t, form |-> f, n |-> n]
ParseVectors ==
  { Parse(CodeNames[i], "name", i) : i \in 1..16 }
  \cup { Parse("code_" \o ToString(n), "num", n) : n \in {0, 17, 18, 100, 65536, 2147483647} }
  \cup { Parse(t, "junk", 0) : t \in {"", "Canceled", "CANCELED", "CODE_5", "code_", "code_x", "code_+ 5", "not a code",
                                        "code_1.5", "canceled ", " canceled", "code", "code_0x11", "ok", "OK", "code_1e3",
                                        \* bare numbers are not the code_<number> form either
                                        "0", "1", "5", "16", "17", "429", "-1", "4294967295", "4294967296", "_5", "code5",
                                        \* something between the prefix and the digits
                                        "code__17", "code_code_17", "code_c17", "code_deco_17", "code_ode_20", "code_ 17",
                                        "code_17 ", "code_17x", "xcode_17", "code_code_"} }
\* valid UTF-8 only: the message travels in a protobuf string as well
Utf8Msgs == { <<>>, <<65>>, <<37>>, <<0>>, <<31, 32, 126, 127>>, <<195, 169>>, <<37, 52, 49>>, <<10, 13>>, <<226, 130, 172, 37, 37>>,
              <<32, 65, 32>>, <<240, 159, 152, 128>> }
Deadlines == { 5, 61, 3600, 86400, 1999999, 2000001, 8640000, 9999998, 10000001, 31536000, 1000000000 }
Prevs == {-1, 0, 2, 7200, 1000000000}
MCInit == \/ \E s \in Strs : InitWith([op |-> "pct", in |-> s])
          \/ \E s \in DecStrs : InitWith([op |-> "pctany", in |-> s])
          \/ \E s \in Strs : Len(s) <= 2 /\ InitWith([op |-> "b64", in |-> s])
          \/ \E v \in ParseVectors : InitWith(v)
          \/ \E m \in Utf8Msgs : InitWith([op |-> "grpcmsg_e2e", in |-> m])
          \* prev: the *connect.Request was already used for a call (-1: it was not; 0: without deadline; n: n seconds)
          \/ \E p \in {"connect", "grpc", "grpcweb"}, d \in Deadlines, pv \in Prevs :
                InitWith([op |-> "deadline_e2e", proto |-> p, secs |-> d, d |-> 0, prev |-> pv])
          \/ \E p \in {"connect", "grpc", "grpcweb"}, pv \in Prevs : InitWith([op |-> "nodeadline_e2e", proto |-> p, prev |-> pv])
          \* less than the encoding's granularity is left (900 us): still a timeout, never "none"
          \/ \E p \in {"connect", "grpc", "grpcweb"} : InitWith([op |-> "deadline_e2e", proto |-> p, secs |-> 0, d |-> 900000, prev |-> -1])
          \* C12: the Spec a call's client interceptors and handler see, on a fresh / already used / forwarded Request
          \/ \E p \in {"connect", "grpc", "grpcweb"}, u \in {"fresh", "otherclient", "forwarded"},
                b \in {"http://verif.test", "http://verif.test/api/v1", "http://verif.test/", "https://verif.test:8443/a.b/c/",
                        "http://verif.test/pkg.Other"} :
                \E hs \in {"rooted", "unrooted", "prefix", "fullurl"} :
                  /\ (hs # "rooted" => u = "fresh")
                  /\ InitWith([op |-> "spec_reuse", proto |-> p, used |-> u, base |-> b, text |-> hs])
          \/ \E p \in {"connect", "grpc", "grpcweb"}, u \in {"badoption", "badurl"} :
                InitWith([op |-> "client_init_fail", proto |-> p, used |-> u])
          \* C15: a handler returns its context's error; the context ended on the server side alone
          \/ \E p \in {"connect", "grpc", "grpcweb"}, k \in {"unary", "client", "server", "bidi"},
                c \in {"deadline", "servercancel", "early"}, n \in {0, 2} :
                /\ (n > 0 => k \in {"server", "bidi"} /\ c # "early")
                /\ InitWith([op |-> "handler_ctx", proto |-> p, used |-> k, text |-> c, n |-> n])
          \* C14: the response head and the cancellation race, the response wins
          \* (n: the HTTP status of that response, 0 = 200; text = "body": the head arrives in time, the context ends when
          \*  the body is first read)
          \/ \E p \in {"connect", "grpc", "grpcweb"}, k \in {"unary", "client", "server", "bidi"}, w \in {0, 30},
                st \in {0, 503, 404}, t \in {"before", "body"} :
                /\ (t = "body" => w = 0)
                \* (only unary Connect reads the body of a non-200 response to classify the failure: elsewhere the call
                \*  has failed, with the status' code, before that body is touched and the context ends)
                /\ (t = "body" /\ st # 0 => p = "connect" /\ k = "unary")
                /\ InitWith([op |-> "late_response", proto |-> p, used |-> k, d |-> w, n |-> st, text |-> t])
          \* C14: a Receive that fails for a reason of its own while the handler is waiting for the client
          \/ \E p \in {"connect", "grpc", "grpcweb"} : InitWith([op |-> "recvfail_live", proto |-> p])
          \* C01: messages with sub-messages, repeated and map fields
          \/ \E p \in {"connect", "grpc", "grpcweb"}, u \in {"plain", "gzip"} : InitWith([op |-> "nested_e2e", proto |-> p, used |-> u])
          \* C12: the Spec of streaming calls
          \/ \E p \in {"connect", "grpc", "grpcweb"}, k \in {"client", "server", "bidi"} : InitWith([op |-> "spec_kinds", proto |-> p, used |-> k])
          \* C13: receiving while a Send on the same stream is blocked
          \/ \E p \in {"connect", "grpc", "grpcweb"} : InitWith([op |-> "recv_while_send", proto |-> p])
          \* C11: error metadata when the error payload exceeds the client's read limit
          \/ \E p \in {"connect", "grpc", "grpcweb"} : InitWith([op |-> "errmeta_limit", proto |-> p])
          \* C10: a stream created under a deadline and first used later
          \/ \E p \in {"connect", "grpc", "grpcweb"}, k \in {"client", "bidi"}, w \in {0, 300} :
                InitWith([op |-> "deadline_wait", proto |-> p, used |-> k, secs |-> 5, d |-> w])
          \* C08 / C01: a unary Request sent twice, the message once above and once below the compression threshold
          \/ \E p \in {"connect", "grpc", "grpcweb"}, u \in {"large-first", "small-first"} :
                InitWith([op |-> "enc_reuse", proto |-> p, used |-> u])
          \/ \E c \in Codes : InitWith([op |-> "code", c |-> c])
          \/ \E d \in Durs : InitWith([op |-> "timeout", d |-> d])
MCSpec == MCInit /\ [][Next]_vars
GenSpec == MCInit /\ [][FALSE]_vars
Emit == pc = "start" => PrintT(ToJson(sc))
=============================================================================
