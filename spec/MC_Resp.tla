------------------------------- MODULE MC_Resp -------------------------------
EXTENDS Resp, Json
Statuses == {200, 204, 302, 400, 401, 403, 404, 408, 412, 413, 418, 429, 431, 500, 502, 503, 504}
StClasses == {"absent", "0", "5", "00", "17", "abc", "neg", "huge", "wrap", "wrap5"}
DtClasses == {"absent", "valid", "code0", "badb64", "badproto"}
CErr == {"none", "valid", "nocode", "code_0", "code99", "notjson"}
Bodies == {"good", "nomsg", "noterm", "empty", "garbage", "twomsgs"}
Mk(p, k, st, ct, enc, hs, hd, ts, td, ce, b, cs) ==
  [gmsg |-> "nf", proto |-> p, kind |-> k, status |-> st, ctype |-> ct, enc |-> enc, hstatus |-> hs, hdetails |-> hd,
   tstatus |-> ts, tdetails |-> td, cerr |-> ce, body |-> b, casing |-> cs]
\* non-200 heads
InitA == \E p \in {"connect", "grpc", "grpcweb"}, k \in {"unary", "server", "client", "bidi"}, st \in Statuses \ {200},
            ct \in {"match", "other", "absent"}, ce \in CErr, b \in {"empty", "garbage", "good"}, enc \in {"none", "unknown"} :
           InitWith(Mk(p, k, st, ct, enc, "absent", "absent", "absent", "absent", ce, b, "canon"))
\* 200 with a gRPC status in the headers (trailers-only responses)
InitB == \E p \in {"grpc", "grpcweb"}, k \in {"unary", "server", "client", "bidi"}, hs \in StClasses \ {"absent"}, hd \in DtClasses,
            ct \in {"match", "garbage"} :
           InitWith(Mk(p, k, 200, ct, "none", hs, hd, "absent", "absent", "none", "empty", "canon"))
\* 200 with a body and a terminator
InitC == \E p \in {"connect", "grpc", "grpcweb"}, k \in {"unary", "server", "client", "bidi"}, b \in Bodies, ts \in StClasses, td \in {"absent", "valid", "code0"},
            ce \in CErr, cs \in {"canon", "lower", "upper", "both"}, enc \in {"none", "gzip", "unknown"}, ct \in {"match", "other"} :
           /\ (p = "connect" => ts = "absent" /\ td = "absent")
           /\ (p # "connect" => ce = "none")
           /\ (td # "absent" => ts = "5")
           /\ InitWith(Mk(p, k, 200, ct, enc, "absent", "absent", ts, td, ce, b, cs))
\* a non-zero status whose grpc-message is not well-formed percent-encoding (in headers and in the terminator)
InitD == \E p \in {"grpc", "grpcweb"}, k \in {"unary", "server", "client", "bidi"}, g \in {"badpct1", "badpct2", "badpct3"},
            where \in {"header", "term"}, b \in {"good", "nomsg"} :
           InitWith([Mk(p, k, 200, "match", "none", IF where = "header" THEN "5" ELSE "absent", "absent",
                        IF where = "term" THEN "5" ELSE "absent", "absent", "none", IF where = "header" THEN "empty" ELSE b, "canon")
                     EXCEPT !.gmsg = g])
\* a message the client cannot read, followed by data without end: the call ends, and soon (C06 "terminates")
InitE == \E p \in {"connect", "grpc", "grpcweb"}, k \in {"unary", "server", "client", "bidi"}, ts \in {"absent", "0"} :
           /\ ~(p = "connect" /\ k = "unary")
           /\ (p = "connect" => ts = "absent")
           /\ InitWith(Mk(p, k, 200, "match", "none", "absent", "absent", ts, "absent", "none", "flood", "canon"))
MCInit == InitA \/ InitB \/ InitC \/ InitD \/ InitE
MCSpec == MCInit /\ [][Next]_vars
GenSpec == MCInit /\ [][FALSE]_vars
Emit == pc = "start" => PrintT(ToJson(sc))
=============================================================================
