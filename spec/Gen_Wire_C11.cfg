SPECIFICATION GenC11Spec
INVARIANT Emit
CHECK_DEADLOCK FALSE
