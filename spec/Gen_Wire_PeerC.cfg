SPECIFICATION GenPeerClientSpec
INVARIANT Emit
CHECK_DEADLOCK FALSE
