------------------------------ MODULE TraceWire ------------------------------
(* Trace specification for Wire: what the runner observed at four points of a   *)
(* real call must be what the corresponding stage of Wire computes.             *)
(* Events: reset{sc}  req{...tapped request}  hsaw{...handler API}              *)
(*         hneg{ran}  resp{...tapped response, decoded by the reference codec}  csaw{...}  *)
EXTENDS Wire, TraceBase

Blank == [proto |-> "connect", kind |-> "unary", codec |-> "proto", csend |-> "none", cmin |-> 0, cacc |-> <<>>,
          hpools |-> <<>>, hmin |-> 0, reqhdr |-> <<>>, req |-> <<>>, reqsize |-> <<>>, resphdr |-> <<>>,
          resptrl |-> <<>>, resp |-> <<>>, respsize |-> <<>>,
          out |-> [kind |-> "ok", code |-> 0, msg |-> "", ndet |-> 0, meta |-> <<>>, after |-> 0]]
TraceInit == l = 1 /\ failed = FALSE /\ InitWith(Blank)
TReset == Ev("reset") /\ ResetTo(Cur.sc) /\ Consume /\ failed' = FALSE

(* values of `want` appear in `got`, in order *)
RECURSIVE SubSeqOf(_, _)
SubSeqOf(want, got) ==
  IF Len(want) = 0 THEN TRUE
  ELSE IF Len(got) = 0 THEN FALSE
  ELSE IF want[1] = got[1] THEN SubSeqOf(Tail(want), Tail(got))
  ELSE SubSeqOf(want, Tail(got))
(* every key/value list of the multimap `want` is visible in the observed map `obs` (a record key -> values) *)
Visible(want, obs) == \A i \in 1..Len(want) :
                        /\ want[i].k \in DOMAIN obs
                        /\ SubSeqOf(want[i].v, obs[want[i].k])
(* ... and under its own carrier nothing is added to a key the program set: "values unchanged" *)
Exact(want, obs) == \A i \in 1..Len(want) : want[i].k \in DOMAIN obs /\ obs[want[i].k] = want[i].v
(* two observed maps seen as one (gRPC-Web folds trailers into headers when there is no body) *)
VisibleIn2(want, a, b) == \A i \in 1..Len(want) :
                            \/ want[i].k \in DOMAIN a /\ SubSeqOf(want[i].v, a[want[i].k])
                            \/ want[i].k \in DOMAIN b /\ SubSeqOf(want[i].v, b[want[i].k])
Details(n) == [i \in 1..n |-> "d" \o ToString(i)]
Bit0(f) == f % 2

\* "peer" scenarios: the other side is the reference codec acting as a conformant foreign implementation that
\* uses the freedoms the protocols leave (which messages to compress, casing, padding ...): C05's converse
IsPeer == "peer" \in DOMAIN sc /\ sc.peer = "server"
\* the converse on the request side: the reference codec acts as a conformant foreign client (which messages to
\* compress, bare gRPC content types, padded -Bin values, blanks in the accept list); the real handler must see the
\* program's messages and metadata, and its response is judged like any other
IsPeerClient == "peer" \in DOMAIN sc /\ sc.peer = "client"
\* the request as the handler's side of the wire saw it
TReq ==
  /\ Ev("req") /\ CStart
  /\ Cur.method = "POST" /\ Cur.problems = <<>>
  /\ Cur.ctype = wreq'.ctype /\ Cur.enc = wreq'.enc /\ Cur.accept = wreq'.accept
  /\ (Cur.te = "trailers") = (sc.proto = "grpc")
  /\ Visible(sc.reqhdr, Cur.hdr)
  \* the body is tapped as far as the handler read it: nothing if negotiation failed
  /\ LET negok == Identity(wreq'.enc) \/ wreq'.enc \in HSet(sc) IN
     IF negok THEN /\ IF IsPeerClient
                      THEN (\E i \in 1..Len(Cur.frames) : Bit0(Cur.frames[i][1]) = 1) => ~Identity(Cur.enc)
                      ELSE [i \in 1..Len(Cur.frames) |-> Bit0(Cur.frames[i][1])] = wreq'.flags
                   /\ Cur.ids = wreq'.ids
     ELSE TRUE

\* a client Send may fail once the handler has refused the call: only with the stream-closed error (io.EOF)
TCsend == /\ Ev("csend") /\ pc = "c_start" /\ Cur.eof
          /\ ~(Identity(ReqEnc(sc)) \/ ReqEnc(sc) \in HSet(sc))
          /\ UNCHANGED vars

\* negotiation: user code runs iff the request's encoding is one the handler has
THneg == /\ Ev("hneg") /\ HNeg /\ Cur.ran = (IF neg'.ok THEN 1 ELSE 0)
\* what user code was given
THsaw == /\ Ev("hsaw") /\ HRun /\ Cur.ids = hsaw'.ids /\ Visible(sc.reqhdr, Cur.hdr)

\* a broken peer that ends the response without the protocol's terminator (C06 / C13: the failure stays with its call)
Dropped == IsPeer /\ "DropStatus" \in DOMAIN sc.choices /\ sc.choices.DropStatus /\ ~IsUnaryConnect(sc)
TRespDropped == Ev("resp") /\ Dropped /\ HResp /\ Cur.status = 200
TCsawDropped == /\ Ev("csaw") /\ Dropped /\ CSee
                /\ ~Cur.ok /\ Cur.err.code \in 1..16
                /\ Cur.meta_call \in {"own", "absent"}  \* never another call's response headers
                /\ IsPrefix(Cur.ids, Ids(sc.resp))
\* the response on the wire
TResp ==
  /\ Ev("resp") /\ ~Dropped /\ HResp
  /\ Cur.problems = <<>>
  /\ Cur.status = wresp'.status /\ Cur.ctype = wresp'.ctype
  /\ Cur.ids = wresp'.ids
  /\ Len(Cur.flags) >= Len(wresp'.flags)
  /\ IF IsPeer
     THEN \* a peer may compress any subset of the messages once the header names an algorithm
          (\E i \in 1..Len(wresp'.flags) : Bit0(Cur.flags[i]) = 1) => ~Identity(Cur.enc)
     ELSE /\ Cur.enc = wresp'.enc /\ Cur.accept = Join(Names(sc.hpools))
          /\ \A i \in 1..Len(wresp'.flags) : Bit0(Cur.flags[i]) = wresp'.flags[i]
  /\ IF wresp'.err = None THEN Cur.err.code = 0
     ELSE /\ Cur.err.code = wresp'.err.code
          /\ (neg.ok /\ wresp'.err.msg # "library" => Cur.err.msg = wresp'.err.msg)
          /\ (neg.ok => Cur.err.details = Details(wresp'.err.ndet))
  \* carriers: with at least one message on the wire headers are headers and trailers are trailers
  /\ IF Len(wresp'.ids) >= 1 /\ wresp'.err = None
     THEN Visible(wresp'.hdr, Cur.hdr) /\ Visible(wresp'.trl, Cur.trl)
     ELSE VisibleIn2(wresp'.hdr, Cur.hdr, Cur.trl) /\ VisibleIn2(wresp'.trl, Cur.hdr, Cur.trl)
  /\ (wresp'.err # None => VisibleIn2(wresp'.err.meta, Cur.hdr, Cur.trl))

\* what the client's API yielded
TCsaw ==
  /\ Ev("csaw") /\ ~Dropped /\ CSee
  /\ ("meta_call" \in DOMAIN Cur => Cur.meta_call \in {"na", "own", "absent"})
  /\ Cur.ok = csaw'.ok
  /\ Cur.ids = csaw'.ids
  \* C13: what the application was handed is still intact when it looks again later
  /\ ("late_ids" \in DOMAIN Cur => Cur.late_ids = Cur.ids /\ Cur.late_msg = Cur.err.msg)
  /\ IF csaw'.ok
     THEN IF csaw'.carried >= 1 THEN Exact(csaw'.hdr, Cur.hdr) /\ Exact(csaw'.trl, Cur.trl)
          ELSE VisibleIn2(csaw'.hdr, Cur.hdr, Cur.trl) /\ VisibleIn2(csaw'.trl, Cur.hdr, Cur.trl)
     ELSE /\ Cur.err.code = csaw'.code
          /\ (neg.ok => /\ (csaw'.msg # "library" => Cur.err.msg = csaw'.msg)
                        /\ Cur.err.details = Details(csaw'.ndet)
                        /\ Visible(csaw'.meta, Cur.err.meta))

Normal == TReset \/ ((TReq \/ TCsend \/ THneg \/ THsaw \/ TResp \/ TCsaw \/ TRespDropped \/ TCsawDropped) /\ Consume /\ UNCHANGED failed)
TraceNext == \/ (~failed /\ Normal)
             \/ (~failed /\ ~ENABLED Normal /\ Reject /\ UNCHANGED vars)
             \/ (SkipRest /\ UNCHANGED vars)
             \/ (failed /\ TReset)
TraceSpec == TraceInit /\ [][TraceNext]_<<vars, l, failed>>
=============================================================================
