SPECIFICATION GenPeerSpec
INVARIANT Emit
CHECK_DEADLOCK FALSE
