SPECIFICATION GenSpec
INVARIANT Emit
CHECK_DEADLOCK FALSE
