---------------------------- MODULE MC_SendSide ----------------------------
(* Bounded scenario set for SendSide: every byte offset of small request streams x faults x kinds x protocols. *)
EXTENDS SendSide, Json
Protos == {"connect", "grpc", "grpcweb"}
SizeSeqs(k) == IF k \in {"unary", "server"} THEN { <<3>>, <<9>> }
               ELSE { <<3>>, <<3, 9>>, <<9, 3, 3>> }
MCInit == \E p \in Protos, k \in {"unary", "client", "server", "bidi"}, f \in {"err", "ctxc", "ctxd"} :
            \E sz \in SizeSeqs(k) : \E c \in 0..(EndOf([sizes |-> sz, kind |-> k], Len(sz)) + 1) :
              InitWith([proto |-> p, kind |-> k, sizes |-> sz, cut |-> c, fault |-> f, poison |-> 0])
PoisonInit == \E p \in Protos, k \in {"unary", "client", "server", "bidi"} :
                \E sz \in SizeSeqs(k) : \E i \in 1..Len(sz) :
                  InitWith([proto |-> p, kind |-> k, sizes |-> sz, cut |-> 1000, fault |-> "err", poison |-> i])
\* handler side: the ResponseWriter accepts `cut` Write calls and refuses the rest
HandlerInit == \E p \in Protos, k \in {"hserver", "hbidi"}, n \in 1..3 : \E c \in 0..(2 * n + 2) :
                 InitWith([proto |-> p, kind |-> k, sizes |-> [i \in 1..n |-> 1], cut |-> c, fault |-> "werr", poison |-> 0])
\* ... or refuses exactly one Write (oracle only: the byte-level state machine covers the sticky faults)
OnceInit == \E p \in Protos, k \in {"hserver", "hbidi"}, n \in 1..3 : \E c \in 0..(2 * n + 1) :
              InitWith([proto |-> p, kind |-> k, sizes |-> [i \in 1..n |-> 1], cut |-> c, fault |-> "werr1", poison |-> 0])
MCSpec == (MCInit \/ PoisonInit \/ HandlerInit) /\ [][Next]_vars
GenSpec == (MCInit \/ PoisonInit \/ HandlerInit \/ OnceInit) /\ [][FALSE]_vars
Emit == PrintT(ToJson(sc))
=============================================================================
