---------------------------- MODULE MC_SendSide ----------------------------
(* Bounded scenario set for SendSide: every byte offset of small request streams x faults x kinds x protocols. *)
EXTENDS SendSide, Json
Protos == {"connect", "grpc", "grpcweb"}
SizeSeqs(k) == IF k \in {"unary", "server"} THEN { <<3>>, <<9>> }
               ELSE { <<3>>, <<3, 9>>, <<9, 3, 3>> }
MCInit == \E p \in Protos, k \in {"unary", "client", "server", "bidi"}, f \in {"err", "ctxc", "ctxd"} :
            \E sz \in SizeSeqs(k) : \E c \in 0..(EndOf([sizes |-> sz], Len(sz)) + 1) :
              InitWith([proto |-> p, kind |-> k, sizes |-> sz, cut |-> c, fault |-> f, poison |-> 0])
PoisonInit == \E p \in Protos, k \in {"unary", "client", "server", "bidi"} :
                \E sz \in SizeSeqs(k) : \E i \in 1..Len(sz) :
                  InitWith([proto |-> p, kind |-> k, sizes |-> sz, cut |-> 1000, fault |-> "err", poison |-> i])
MCSpec == (MCInit \/ PoisonInit) /\ [][Next]_vars
GenSpec == (MCInit \/ PoisonInit) /\ [][FALSE]_vars
Emit == PrintT(ToJson(sc))
=============================================================================
