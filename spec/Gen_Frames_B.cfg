CONSTANT Scenarios <- NoScenarios
CONSTANT ZeroShortcut <- MCZeroShortcut
SPECIFICATION GenBSpec
INVARIANT EmitB
CHECK_DEADLOCK FALSE
