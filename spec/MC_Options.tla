----------------------------- MODULE MC_Options -----------------------------
EXTENDS Options, Json
Names == {"A", "B", "C", "U"}
NamesQ == {"A", "B", "U"}
MaxLen == 4
MaxLenQ == 3
Entries == Names \cup {"nil"}
Distinct(s) == \A i, j \in 1..Len(s) : i # j /\ s[i] # "nil" => s[i] # s[j]
Lists == {s \in UNION {[1..n -> Entries] : n \in 0..MaxLen} : Distinct(s)}
Ics(s) == [t |-> "ics", v |-> s]
Group(v) == [t |-> "group", v |-> v]
\* cut a list into consecutive chunks at the positions in `cuts`
RECURSIVE Chunks(_, _, _)
Chunks(s, cuts, from) ==
  IF from > Len(s) THEN <<>>
  ELSE LET nexts == {c \in cuts : c >= from} IN
       IF nexts = {} THEN <<SubSeq(s, from, Len(s))>>
       ELSE LET c == CHOOSE x \in nexts : \A y \in nexts : x <= y IN
            <<SubSeq(s, from, c)>> \o Chunks(s, cuts, c + 1)
\* wrap chunk i in its own group if i \in solo; wrap everything in an outer group if outer; put an empty
\* WithInterceptors() in front if lead
Build(s, cuts, solo, outer, lead) ==
  LET ch == Chunks(s, cuts, 1)
      items == [i \in 1..Len(ch) |-> IF i \in solo THEN Group(<<Ics(ch[i])>>) ELSE Ics(ch[i])]
      withlead == IF lead THEN <<Ics(<<>>)>> \o items \o <<Ics(<<>>)>> ELSE items     \* empty groups in front and behind
  IN IF outer THEN <<Group(withlead)>> ELSE withlead
MCInit ==
  \E s \in Lists : \E cuts \in SUBSET (1..(Len(s) - 1)) : \E solo \in SUBSET (1..(Cardinality(cuts) + 1)) :
    \* grouping: which constructor builds a group -- "alt": WithClientOptions / WithHandlerOptions at even nesting depth and
    \* the side-agnostic WithOptions at odd depth; "both": WithOptions everywhere; "side": the side-specific ones everywhere
    \E outer \in BOOLEAN, lead \in BOOLEAN, side \in {"client", "handler"}, shape \in {"unary", "stream"},
       g \in {"alt", "both", "side"} :
      InitWith([opts |-> Build(s, cuts, solo, outer, lead), side |-> side, shape |-> shape, grouping |-> g])
MCSpec == MCInit /\ [][Next]_vars

(* C19: the recover interceptor at every position of a chain of up to three, every panic value and point *)
RecoverChains == { <<Ics(<<"R">>)>>, <<Ics(<<"A">>), Ics(<<"R">>)>>, <<Ics(<<"R">>), Ics(<<"A">>)>>,
                   <<Ics(<<"A">>), Ics(<<"R">>), Ics(<<"B">>)>>, <<Ics(<<"A", "B">>), Ics(<<"R">>)>>,
                   <<Ics(<<"R">>), Ics(<<"A", "B">>)>>, <<Group(<<Ics(<<"A">>), Ics(<<"R">>)>>), Ics(<<"B">>)>>,
                   <<Ics(<<"A">>)>>, <<>>,
                   <<Ics(<<"R">>), Ics(<<>>)>>, <<Ics(<<>>), Ics(<<"R">>)>>, <<Ics(<<"R">>), Group(<<Ics(<<>>)>>), Ics(<<"A">>)>>,
                   <<Ics(<<"A">>), Ics(<<"R">>), Ics(<<>>)>>,
                   <<Ics(<<"A", "U">>), Ics(<<"R">>)>>, <<Ics(<<"R">>), Ics(<<"U", "A">>)>> }
Points(k) == IF k = "unary" THEN {0} ELSE IF k = "client" THEN {0, 1} ELSE {0, 1, 2}
RecInit ==
  \E o \in RecoverChains, k \in {"unary", "client", "server", "bidi"}, p \in {"connect", "grpc", "grpcweb"},
     \* ("slice": a value that is not comparable / hashable; "struct": the recovery function answers with an error
     \*  that WRAPS its coded error)
     v \in {"none", "fail", "nil", "error", "string", "struct", "slice", "bytes", "int", "abort", "wrapabort"} : \E at \in Points(k) :
    InitWith([opts |-> o, side |-> "handler", shape |-> IF k = "unary" THEN "unary" ELSE "stream", kind |-> k,
              proto |-> p, panic |-> [value |-> v, at |-> at]])
RecSpec == RecInit /\ [][Next]_vars
GenRecSpec == RecInit /\ [][FALSE]_vars
GenSpec == MCInit /\ [][FALSE]_vars
Emit == pc = "apply" /\ todo = sc.opts /\ cur = Nil => PrintT(ToJson(sc))
=============================================================================
