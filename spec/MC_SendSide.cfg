SPECIFICATION MCSpec
INVARIANTS SendsAsOracle NoLateSuccess CtxFinal NoBlockedWrite
CHECK_DEADLOCK FALSE
