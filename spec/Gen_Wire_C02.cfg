SPECIFICATION GenC02Spec
INVARIANT Emit
CHECK_DEADLOCK FALSE
