------------------------------ MODULE Scalars ------------------------------
(***************************************************************************)
(* The small wire codecs as TLA+ operators (C18, timeout encoding of C10):  *)
(* gRPC percent-encoding of grpc-message (protocol_grpc.go), the text form  *)
(* of codes (code.go), code -> HTTP status (protocol_connect.go), the       *)
(* binary-header base64 rule (header.go), gRPC timeout encoding.            *)
(* Bytes are integers 0..255, strings are sequences of bytes.               *)
(*                                                                         *)
(* sc = [op : "pct"|"code"|"codetext"|"b64"|"timeout"|..., ...arguments]    *)
(***************************************************************************)
EXTENDS Integers, Sequences, FiniteSets, TLC, TimeoutGrammar

VARIABLES sc, pc, res
vars == <<sc, pc, res>>

(* ---- percent-encoding ---- *)
HexChar(n) == IF n < 10 THEN 48 + n ELSE 55 + n                 \* upper-case hex digit
Unreserved(b) == b >= 32 /\ b <= 126 /\ b # 37                  \* printable ASCII except '%'
RECURSIVE PctEncode(_)
PctEncode(s) == IF s = <<>> THEN <<>>
                ELSE (IF Unreserved(Head(s)) THEN <<Head(s)>>
                      ELSE <<37, HexChar(Head(s) \div 16), HexChar(Head(s) % 16)>>) \o PctEncode(Tail(s))
HexVal(c) == IF c >= 48 /\ c <= 57 THEN c - 48
             ELSE IF c >= 65 /\ c <= 70 THEN c - 55
             ELSE IF c >= 97 /\ c <= 102 THEN c - 87 ELSE -1
\* decoding of well-formed input (the decoder must also survive anything else)
RECURSIVE PctDecode(_)
PctDecode(s) == IF s = <<>> THEN <<>>
                ELSE IF Head(s) = 37 /\ Len(s) >= 3 /\ HexVal(s[2]) >= 0 /\ HexVal(s[3]) >= 0
                THEN <<HexVal(s[2]) * 16 + HexVal(s[3])>> \o PctDecode(SubSeq(s, 4, Len(s)))
                ELSE <<Head(s)>> \o PctDecode(Tail(s))
Printable(s) == \A i \in 1..Len(s) : s[i] >= 32 /\ s[i] <= 126

(* ---- codes ---- *)
CodeNames == <<"canceled", "unknown", "invalid_argument", "deadline_exceeded", "not_found", "already_exists",
               "permission_denied", "resource_exhausted", "failed_precondition", "aborted", "out_of_range",
               "unimplemented", "internal", "unavailable", "data_loss", "unauthenticated">>
CodeText(c) == IF c \in 1..16 THEN CodeNames[c] ELSE "code_" \o ToString(c)
HTTPStatusOf(c) ==
  CASE c = 1 -> 408 [] c = 2 -> 500 [] c = 3 -> 400 [] c = 4 -> 408 [] c = 5 -> 404 [] c = 6 -> 409
    [] c = 7 -> 403 [] c = 8 -> 429 [] c = 9 -> 412 [] c = 10 -> 409 [] c = 11 -> 400 [] c = 12 -> 404
    [] c = 13 -> 500 [] c = 14 -> 503 [] c = 15 -> 500 [] c = 16 -> 401 [] OTHER -> 500

(* ---- gRPC timeout encoding: the first unit whose count has fewer than 8 digits ---- *)
UnitNs(i) == CASE i = 1 -> 1 [] i = 2 -> 1000 [] i = 3 -> 1000000 [] i = 4 -> 1000000000
UnitChar(i) == CASE i = 1 -> "n" [] i = 2 -> "u" [] i = 3 -> "m" [] i = 4 -> "S"
\* (32-bit model integers: durations below 2^31 ns only; the 63-bit theorem is Timeout.tla, checked by Apalache)
FitsUnit(d, i) == d \div UnitNs(i) < 10000000
UnitOf(d) == IF FitsUnit(d, 1) THEN 1 ELSE IF FitsUnit(d, 2) THEN 2 ELSE IF FitsUnit(d, 3) THEN 3 ELSE 4
GrpcEncode(d) == IF d <= 0 THEN "0n" ELSE ToString(d \div UnitNs(UnitOf(d))) \o UnitChar(UnitOf(d))
GrpcDecodedNs(d) == IF d <= 0 THEN 0 ELSE (d \div UnitNs(UnitOf(d))) * UnitNs(UnitOf(d))

(* ---- evaluation as a (one-step) state machine ---- *)
None == [none |-> TRUE]
Eval(s) ==
  CASE s.op = "pct"      -> [enc |-> PctEncode(s.in), dec |-> PctDecode(PctEncode(s.in))]
    [] s.op = "code"     -> [text |-> CodeText(s.c), http |-> HTTPStatusOf(s.c)]
    [] s.op = "timeout"  -> [text |-> GrpcEncode(s.d), ns |-> GrpcDecodedNs(s.d)]
    [] OTHER             -> None
InitWith(s) == sc = s /\ pc = "start" /\ res = None
ResetTo(s)  == sc' = s /\ pc' = "start" /\ res' = None
Step == pc = "start" /\ res' = Eval(sc) /\ pc' = "done" /\ UNCHANGED sc
Next == Step

(* ---- properties (C18, C10) ---- *)
Done == pc = "done"
PctRoundTrip == Done /\ sc.op = "pct" => res.dec = sc.in /\ Printable(res.enc)
StatusIsError == Done /\ sc.op = "code" => res.http \in 400..599
TimeoutNeverExtended == Done /\ sc.op = "timeout" /\ sc.d > 0 =>
                          /\ res.ns <= sc.d
                          /\ (sc.d - res.ns) < UnitNs(UnitOf(sc.d))
                          /\ (UnitOf(sc.d) = 1 \/ (sc.d - res.ns) * 10000 < sc.d)
=============================================================================
