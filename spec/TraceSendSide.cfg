SPECIFICATION TraceSpec
CONSTRAINT HWM
POSTCONDITION TraceAccepted
CHECK_DEADLOCK FALSE
