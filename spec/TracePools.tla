----------------------------- MODULE TracePools -----------------------------
(* Trace specification for the buffer pools: events recorded by the verif hooks *)
(* in bufferPool.Get / Put, under one recorder mutex.                           *)
(* Events: reset{} get{pool, buf} put{pool, buf}; a buffer is identified by     *)
(* <<pool, buf>>.  The recorder cannot know the owning call, so ownership is    *)
(* checked as: never Get something that is handed out, never Put something      *)
(* that is already in the pool.                                                 *)
EXTENDS Integers, Sequences, FiniteSets, TraceBase
VARIABLES pooled, out
vars == <<pooled, out>>
TraceInit == l = 1 /\ failed = FALSE /\ pooled = {} /\ out = {}
TReset == Ev("reset") /\ Consume /\ failed' = FALSE /\ pooled' = {} /\ out' = {}
Id == <<Cur.pool, Cur.buf>>
TGet == /\ Ev("get") /\ Id \notin out
        /\ pooled' = pooled \ {Id} /\ out' = out \cup {Id}
TPut == /\ Ev("put") /\ Id \notin pooled
        /\ pooled' = pooled \cup {Id} /\ out' = out \ {Id}
Normal == TReset \/ ((TGet \/ TPut) /\ Consume /\ UNCHANGED failed)
TraceNext == \/ (~failed /\ Normal)
             \/ (~failed /\ ~ENABLED Normal /\ Reject /\ UNCHANGED vars)
             \/ (SkipRest /\ UNCHANGED vars)
             \/ (failed /\ TReset)
TraceSpec == TraceInit /\ [][TraceNext]_<<vars, l, failed>>
=============================================================================
