------------------------------ MODULE SendSide ------------------------------
(***************************************************************************)
(* The sending half of a client call under a transport that stops          *)
(* cooperating (envelope.go envelopeWriter.write, duplex_http_call.go      *)
(* Write / SetError / makeRequest / watchContext):                          *)
(*                                                                         *)
(* The client sends messages m_1 .. m_n, each an envelope of 5 prefix bytes *)
(* plus sizes[i] payload bytes, written to the request pipe as TWO writes   *)
(* (prefix, payload).  The transport consumes exactly `cut` bytes of the    *)
(* request body; the fault strikes when cut - 1 bytes have been consumed    *)
(* (for cut = 0: before anything is read):                                  *)
(*   "err"   HTTPClient.Do fails (connection reset ...)                     *)
(*   "ctxc"  the call's context is cancelled        (C15 "while sending")   *)
(*   "ctxd"  the call's deadline passes                                     *)
(* A write returns only when the transport has consumed all of it (the      *)
(* request body is a synchronous pipe), which makes the outcome of every    *)
(* Send a function of the scenario:                                         *)
(*   - a message consumed completely was sent: Send returns nil;            *)
(*   - the first message the transport did not consume completely fails:    *)
(*     with the stream-closed error wrapping io.EOF, or -- when the context *)
(*     ended -- with the context's code; never with success, never with     *)
(*     another code, never by blocking (C04, C14, C15);                      *)
(*   - the call's final operation (Receive, CloseAndReceive, CallUnary ...) *)
(*     fails with a coded error: the context's code for "ctxc" / "ctxd".    *)
(*                                                                         *)
(* A message may also be one the client's codec refuses to marshal          *)
(* (`poison` = its index, 0 = none): that Send fails with code internal     *)
(* before anything of it is written, and -- where the library sends the     *)
(* message itself (CallUnary, CallServerStream) -- so does the call, without *)
(* blocking.                                                                *)
(*                                                                         *)
(* The same shape covers a HANDLER whose ResponseWriter stops accepting     *)
(* writes (the client went away): kinds "hserver" / "hbidi", fault "werr";  *)
(* the unit is then one Write call -- a message is a prefix write and a     *)
(* payload write -- and `cut` the number of writes that succeed.  Every     *)
(* Send that needs a refused write fails with a coded error, the handler    *)
(* returns, nothing panics.                                                 *)
(*                                                                         *)
(* sc = [proto, kind : "unary"|"client"|"server"|"bidi"|"hserver"|"hbidi",  *)
(*       sizes : Seq(Nat), cut : Nat, fault : "err"|"ctxc"|"ctxd"|"werr",   *)
(*       poison : Nat]                                                      *)
(***************************************************************************)
EXTENDS Integers, Sequences, FiniteSets, TLC

VARIABLES sc,
          consumed,   \* bytes of the request body the transport has taken
          struck,     \* the fault has happened
          si,         \* index of the message being sent (1-based); Len + 1 when all are sent
          part,       \* "idle" | "prefix" | "payload": which write of message si is pending
          results,    \* results of the Sends so far
          final       \* 0 (open) or the code of the final operation's result

vars == <<sc, consumed, struck, si, part, results, final>>

Poison(s) == IF "poison" \in DOMAIN s THEN s.poison ELSE 0
Handler(s) == s.kind \in {"hserver", "hbidi"}
Pre(s) == IF Handler(s) THEN 1 ELSE 5                \* handler side: units are Write calls
RECURSIVE EndOf(_, _)
EndOf(s, i) == IF i = 0 THEN 0 ELSE (IF i = Poison(s) THEN 0 ELSE Pre(s) + s.sizes[i]) + EndOf(s, i - 1)
StartOf(s, i) == EndOf(s, i - 1)
Total(s) == EndOf(s, Len(s.sizes))
Cut(s) == IF s.cut > Total(s) THEN Total(s) ELSE s.cut
CtxFault(s) == s.fault \in {"ctxc", "ctxd"}
CtxCode(s) == IF s.fault = "ctxc" THEN 1 ELSE 4

(* ---- the whole-scenario oracle ---- *)
\* (when the context ends the library itself closes the request pipe, racing with the transport's read of the one
\*  byte after the strike: a message that ends with exactly that byte may or may not count as sent)
Sent(s, i) == EndOf(s, i) <= Cut(s)
SurelySent(s, i) == IF CtxFault(s) THEN EndOf(s, i) <= Cut(s) - 1 ELSE Sent(s, i)
\* fault "werr1" (handler side): only the write number cut + 1 is refused, the later ones succeed again.  The message that
\* needed the refused write -- its prefix or its payload -- must be reported as failed (a Send whose prefix was refused
\* writes no payload; the write count moves on by one only)
RECURSIVE W1(_, _, _)
W1(s, i, w) ==   \* [failed message index or 0] after messages 1..i, starting with w writes done
  IF i > Len(s.sizes) THEN 0
  ELSE IF w + 1 = s.cut + 1 THEN i                 \* the prefix write is the refused one
  ELSE IF w + 2 = s.cut + 1 THEN i                 \* the payload write is
  ELSE W1(s, i + 1, w + 2)
FailedOnce(s) == W1(s, 1, 0)
SendOutcomes(s, i) == IF s.fault = "werr1" THEN (IF i = FailedOnce(s) THEN {"fail"} ELSE {"ok"})
                      ELSE IF i = Poison(s) THEN {"internal"}
                      ELSE IF SurelySent(s, i) THEN {"ok"}
                      ELSE IF Handler(s) THEN {"fail"}
                      ELSE (IF Sent(s, i) THEN {"ok"} ELSE {})
                           \cup (IF CtxFault(s) THEN {"eof", "ctx"} ELSE {"eof"})
AllSent(s) == Total(s) <= Cut(s)
FinalCodes(s) == IF s.fault = "werr1" THEN (IF FailedOnce(s) = 0 THEN {0} ELSE 1..16)
                 ELSE IF Handler(s) THEN (IF AllSent(s) THEN {0} ELSE 1..16)
                 ELSE IF Poison(s) > 0 /\ s.kind \in {"unary", "server"} THEN {13}
                 ELSE IF CtxFault(s) THEN {CtxCode(s)} ELSE 1..16

(* ---- state machine: transport and writer as separate processes ---- *)
InitWith(s) == /\ sc = s /\ consumed = 0 /\ struck = FALSE /\ si = 1 /\ part = "idle"
               /\ results = <<>> /\ final = 0
ResetTo(s)  == /\ sc' = s /\ consumed' = 0 /\ struck' = FALSE /\ si' = 1 /\ part' = "idle"
               /\ results' = <<>> /\ final' = 0

\* the bytes the writer has offered so far: everything up to the end of the pending write
Offered == IF si > Len(sc.sizes) THEN Total(sc)
           ELSE IF part = "idle" THEN StartOf(sc, si)
           ELSE IF part = "prefix" THEN StartOf(sc, si) + Pre(sc)
           ELSE EndOf(sc, si)

\* transport: take one more offered byte; the fault strikes when cut - 1 bytes are gone
TTake == /\ consumed < Cut(sc) /\ consumed < Offered
         /\ (consumed = Cut(sc) - 1 => struck)
         /\ consumed' = consumed + 1
         /\ UNCHANGED <<sc, struck, si, part, results, final>>
TStrike == /\ ~struck /\ (Cut(sc) = 0 \/ consumed = Cut(sc) - 1)
           /\ struck' = TRUE
           /\ UNCHANGED <<sc, consumed, si, part, results, final>>
\* after the last byte: an "err" transport returns from Do with its error, a cancelled one waits for the library to
\* give up the request body -- either way the pipe gets closed and nothing more is consumed
Dead == struck /\ (consumed = Cut(sc) \/ (CtxFault(sc) /\ consumed = Cut(sc) - 1))

\* writer: Send(m_si) = write(prefix); write(payload)
WBegin == /\ final = 0 /\ si <= Len(sc.sizes) /\ si # Poison(sc) /\ part = "idle" /\ part' = "prefix"
          /\ UNCHANGED <<sc, consumed, struck, si, results, final>>
\* the codec refuses the message: the Send fails before anything is written
WPoison == /\ final = 0 /\ si = Poison(sc) /\ part = "idle"
           /\ results' = Append(results, "internal") /\ si' = si + 1
           /\ UNCHANGED <<sc, consumed, struck, part, final>>
\* a write returns nil once the transport has consumed all of it
WPrefixDone == /\ part = "prefix" /\ consumed >= StartOf(sc, si) + Pre(sc)
               /\ part' = "payload" /\ UNCHANGED <<sc, consumed, struck, si, results, final>>
WPayloadDone == /\ part = "payload" /\ consumed >= EndOf(sc, si)
                /\ results' = Append(results, "ok") /\ si' = si + 1 /\ part' = "idle"
                /\ UNCHANGED <<sc, consumed, struck, final>>
\* a write that can no longer complete fails: closed pipe (io.EOF) -- or the context's error if the write had not
\* begun when the context ended
WFail == /\ part \in {"prefix", "payload"} /\ Dead
         /\ consumed < (IF part = "prefix" THEN StartOf(sc, si) + Pre(sc) ELSE EndOf(sc, si))
         /\ \E r \in (IF Handler(sc) THEN {"fail"} ELSE IF CtxFault(sc) THEN {"eof", "ctx"} ELSE {"eof"}) :
              results' = Append(results, r)
         /\ si' = si + 1 /\ part' = "idle"
         /\ UNCHANGED <<sc, consumed, struck, final>>
\* the final operation: the call fails with a coded error
WFinal == /\ final = 0 /\ part = "idle" /\ (Dead \/ Poison(sc) > 0) /\ (Handler(sc) => si > Len(sc.sizes))
          /\ \E c \in FinalCodes(sc) : final' = IF c = 0 THEN -1 ELSE c       \* (-1: the handler finished without an error)
          /\ UNCHANGED <<sc, consumed, struck, si, part, results>>

Next == TTake \/ TStrike \/ WBegin \/ WPoison \/ WPrefixDone \/ WPayloadDone \/ WFail \/ WFinal

(* ---- properties ---- *)
\* the state machine agrees with the oracle: a Send's result depends on the scenario alone
SendsAsOracle == \A i \in 1..Len(results) : results[i] \in SendOutcomes(sc, i)
\* C04 / C15: nothing sent after the fault is reported as sent
NoLateSuccess == \A i \in 1..Len(results) : results[i] = "ok" => Sent(sc, i) /\ i # Poison(sc)
\* C15: a call whose context ended ends with the context's code
CtxFinal == (final # 0 /\ CtxFault(sc) /\ Poison(sc) = 0) => final = CtxCode(sc)
\* C14: the writer is never left blocked: once the transport is dead every pending write can finish
NoBlockedWrite == (Dead /\ part # "idle") => (ENABLED WPrefixDone \/ ENABLED WPayloadDone \/ ENABLED WFail)
=============================================================================
