-------------------------------- MODULE Call --------------------------------
(***************************************************************************)
(* One client call through duplexHTTPCall (duplex_http_call.go) over a      *)
(* full-duplex (HTTP/2) transport: the user's sending side (Send,           *)
(* CloseRequest), the user's receiving side (Receive, CloseResponse), the   *)
(* request goroutine (makeRequest), the sticky error / pipe (SetError), the *)
(* context, and the environment: transport, server and a handler program    *)
(* "receive hrecv messages, send hsend messages, drain or not, return       *)
(* ok | err".  Library actions mirror the code's critical sections; the     *)
(* environment is deliberately liberal (a superset of net/http).            *)
(* Decides C14 (termination, release, stickiness) and C15 (cancellation).   *)
(*                                                                         *)
(* sc = [msend, mrecv : Nat (bounds of the client program),                 *)
(*       hrecv, hsend : Nat, hdrain : BOOLEAN, hret : "ok" | "err",         *)
(*       watch : BOOLEAN]  \* TRUE: cancellation reaches a blocked call     *)
(*                         \* (the design the properties need); FALSE       *)
(*                         \* models a library that relies on the transport *)
(***************************************************************************)
EXTENDS Integers, Sequences, FiniteSets, TLC

VARIABLES sc,
          ctx,          \* "live" | "canceled" | "expired"
          spc, sop, sleft,     \* sender: pc, current op, sends left
          rpc, rleft,          \* receiver: pc, receives left
          started, rq, ready, resp, err,
          pw, prClosed, pending,
          inflight, reqEOF,
          hpc, hr, hs, hsawEOF, hctx,
          hdrs, rbuf, rterm, aborted, bodyClosed,
          log                  \* output only: API results

lib  == <<started, rq, ready, resp, err, pw, prClosed, pending>>
env  == <<inflight, reqEOF, hpc, hr, hs, hsawEOF, hctx, hdrs, rbuf, rterm, aborted, bodyClosed>>
usr  == <<sc, ctx, spc, sop, sleft, rpc, rleft>>
vars == <<usr, lib, env, log>>
view == <<usr, lib, env>>

InitWith(s) ==
  /\ sc = s /\ ctx = "live"
  /\ spc = "idle" /\ sop = "none" /\ sleft = s.msend
  /\ rpc = "idle" /\ rleft = s.mrecv
  /\ started = FALSE /\ rq = "none" /\ ready = FALSE /\ resp = "nil" /\ err = "none"
  /\ pw = "open" /\ prClosed = FALSE /\ pending = FALSE
  /\ inflight = 0 /\ reqEOF = FALSE
  /\ hpc = "wait" /\ hr = 0 /\ hs = 0 /\ hsawEOF = FALSE /\ hctx = "live"
  /\ hdrs = FALSE /\ rbuf = 0 /\ rterm = "none" /\ aborted = FALSE /\ bodyClosed = FALSE
  /\ log = <<>>

Log(e) == log' = Append(log, e)

(* ---------------- library: SetError ---------------- *)
SetErr(e) == /\ err' = IF err = "none" THEN e ELSE err
             /\ prClosed' = TRUE

(* ---------------- sender goroutine ---------------- *)
SendBegin == /\ spc = "idle" /\ sleft > 0 /\ sop' = "send" /\ spc' = "w1" /\ sleft' = sleft - 1
             /\ UNCHANGED <<sc, ctx, rpc, rleft, lib, env, log>>
CloseReqBegin == /\ spc = "idle" /\ sop' = "close" /\ spc' = "w1"
                 /\ UNCHANGED <<sc, ctx, sleft, rpc, rleft, lib, env, log>>
\* ensureRequestMade
W1 == /\ spc = "w1"
      /\ started' = TRUE /\ rq' = IF started THEN rq ELSE "doing"
      /\ spc' = IF sop = "send" THEN "w2" ELSE "wc"
      /\ UNCHANGED <<sc, ctx, sop, sleft, rpc, rleft, ready, resp, err, pw, prClosed, pending, env, log>>
\* ctx check
W2 == /\ spc = "w2"
      /\ IF ctx # "live"
         THEN /\ SetErr("ctx") /\ spc' = "idle" /\ Log(<<"send", "ctx">>)
              /\ UNCHANGED <<pending>>
         \* (the context check and the pipe write are separate steps: a write into a pipe that is already closed
         \*  returns the stream-closed error in W3eof -- possibly after the context has ended meanwhile)
         ELSE /\ spc' = "w3" /\ pending' = TRUE /\ UNCHANGED log
              /\ UNCHANGED <<err, prClosed>>
      /\ UNCHANGED <<sc, ctx, sop, sleft, rpc, rleft, started, rq, ready, resp, pw, env>>
\* blocked in pipe write until consumed or reader closed
W3ok  == /\ spc = "w3" /\ ~pending /\ spc' = "idle" /\ Log(<<"send", "ok">>)
         /\ UNCHANGED <<sc, ctx, sop, sleft, rpc, rleft, lib, env>>
W3eof == /\ spc = "w3" /\ pending /\ prClosed /\ pending' = FALSE /\ spc' = "idle" /\ Log(<<"send", "eof">>)
         /\ UNCHANGED <<sc, ctx, sop, sleft, rpc, rleft, started, rq, ready, resp, err, pw, prClosed, env>>
WC == /\ spc = "wc" /\ pw' = "closed" /\ spc' = "sdone" /\ Log(<<"closereq", "ok">>)
      /\ UNCHANGED <<sc, ctx, sop, sleft, rpc, rleft, started, rq, ready, resp, err, prClosed, pending, env>>

(* ---------------- receiver goroutine ---------------- *)
RecvBegin == /\ rpc = "idle" /\ rleft > 0 /\ started /\ rleft' = rleft - 1 /\ rpc' = "r1"
             /\ UNCHANGED <<sc, ctx, spc, sop, sleft, lib, env, log>>
R1 == /\ rpc = "r1" /\ ready /\ rpc' = "r2" /\ UNCHANGED <<sc, ctx, spc, sop, sleft, rleft, lib, env, log>>
R2 == /\ rpc = "r2"
      \* (a clean end is not always recorded as the sticky error -- a trailers-only gRPC-Web response is not --
      \*  so once the context is gone a further Receive may report that instead; it reports an error either way)
      /\ IF err # "none" /\ ~(err = "eof" /\ ctx # "live")
         THEN /\ rpc' = "idle" /\ Log(<<"recv", err>>) /\ UNCHANGED <<err, prClosed>>
         ELSE IF err = "eof" /\ ctx # "live"
         THEN /\ rpc' = "idle" /\ UNCHANGED <<err, prClosed>>
              /\ \E x \in {"eof", "ctx"} : Log(<<"recv", x>>)
         ELSE IF ctx # "live" THEN /\ SetErr("ctx") /\ rpc' = "idle" /\ Log(<<"recv", "ctx">>)
         ELSE /\ rpc' = "r5" /\ UNCHANGED <<err, prClosed, log>>
      /\ UNCHANGED <<sc, ctx, spc, sop, sleft, rleft, started, rq, ready, resp, pw, pending, env>>
\* blocked in body read
R5 ==
  /\ rpc = "r5"
  /\ \/ /\ rbuf > 0 /\ rbuf' = rbuf - 1 /\ rpc' = "idle" /\ Log(<<"recv", "msg">>)
        /\ UNCHANGED <<err, prClosed, rterm>>
     \/ /\ rbuf = 0 /\ rterm # "none" /\ ~aborted
        /\ SetErr(IF rterm = "ok" THEN "eof" ELSE "server")
        /\ rpc' = "idle" /\ Log(<<"recv", IF rterm = "ok" THEN "eof" ELSE "server">>)
        /\ UNCHANGED <<rbuf, rterm>>
     \/ /\ rbuf = 0 /\ aborted      \* body read fails with the context error
        /\ SetErr("ctx") /\ rpc' = "idle" /\ Log(<<"recv", "ctx">>)
        /\ UNCHANGED <<rbuf, rterm>>
  /\ UNCHANGED <<sc, ctx, spc, sop, sleft, rleft, started, rq, ready, resp, pw, pending,
                 inflight, reqEOF, hpc, hr, hs, hsawEOF, hctx, hdrs, aborted, bodyClosed>>
\* (the response side may be closed before everything was received)
CloseRespBegin == /\ rpc = "idle" /\ started /\ spc \in {"sdone", "idle"} /\ rpc' = "c1"
                  /\ UNCHANGED <<sc, ctx, spc, sop, sleft, rleft, lib, env, log>>
C1 == /\ rpc = "c1" /\ ready
      /\ bodyClosed' = (resp = "ok") /\ rpc' = "rdone" /\ Log(<<"closeresp", "ok">>)
      /\ UNCHANGED <<sc, ctx, spc, sop, sleft, rleft, lib, inflight, reqEOF, hpc, hr, hs, hsawEOF, hctx, hdrs, rbuf, rterm, aborted>>

(* ---------------- request goroutine ---------------- *)
QDoOK  == /\ rq = "doing" /\ hdrs /\ resp' = "ok" /\ rq' = "validating"
          /\ UNCHANGED <<usr, started, ready, err, pw, prClosed, pending, env, log>>
QDoErr == /\ rq = "doing" /\ aborted /\ SetErr("ctx") /\ rq' = "closing"
          /\ UNCHANGED <<usr, started, ready, resp, pw, pending, env, log>>
\* validateResponse; a trailers-only error response (gRPC, gRPC-Web: the handler failed before sending
\* anything) is recognised here already and recorded as the call's sticky error
QVal   == /\ rq = "validating" /\ rq' = "closing"
          /\ \/ UNCHANGED <<err, prClosed>>
             \/ /\ rterm = "err" /\ hs = 0 /\ SetErr("server")
          /\ UNCHANGED <<usr, started, ready, resp, pw, pending, env, log>>
QReady == /\ rq = "closing" /\ ready' = TRUE /\ rq' = "done"
          /\ UNCHANGED <<usr, started, resp, err, pw, prClosed, pending, env, log>>

(* ---------------- context ---------------- *)
\* cancel() or the deadline passing; `how` is "canceled" or "expired"
CancelAs(how) ==
          /\ ctx = "live" /\ ctx' = how
          /\ IF sc.watch THEN SetErr("ctx") ELSE UNCHANGED <<err, prClosed>>
          /\ UNCHANGED <<sc, spc, sop, sleft, rpc, rleft, started, rq, ready, resp, pw, pending, env, log>>
Cancel == CancelAs("canceled") \/ CancelAs("expired")

(* ---------------- environment: transport ---------------- *)
TrConsume == /\ rq # "none" /\ pending /\ ~prClosed /\ pending' = FALSE /\ inflight' = inflight + 1
             /\ UNCHANGED <<usr, started, rq, ready, resp, err, pw, prClosed, reqEOF, hpc, hr, hs, hsawEOF, hctx, hdrs, rbuf, rterm, aborted, bodyClosed, log>>
TrReqEOF  == /\ rq # "none" /\ ~pending /\ (pw = "closed" \/ prClosed) /\ ~reqEOF /\ reqEOF' = TRUE
             /\ UNCHANGED <<usr, lib, inflight, hpc, hr, hs, hsawEOF, hctx, hdrs, rbuf, rterm, aborted, bodyClosed, log>>
\* the HTTP/2 transport notices cancellation only when it is not blocked reading the request body:
\* i.e. the request body is finished (EOF seen) -- or Do has not returned yet.
TrAbort   == /\ ctx # "live" /\ ~aborted /\ rq # "none"
             /\ (reqEOF \/ rq = "doing")
             /\ aborted' = TRUE /\ hctx' = "canceled" /\ prClosed' = TRUE
             /\ UNCHANGED <<usr, started, rq, ready, resp, err, pw, pending, inflight, reqEOF, hpc, hr, hs, hsawEOF, hdrs, rbuf, rterm, bodyClosed, log>>
\* after the response finished, the transport closes the request body
\* the library closed the read side of the request pipe: the transport's body read fails and it resets the stream
TrBodyErr == /\ prClosed /\ ~reqEOF /\ pw = "open" /\ ~aborted /\ rq # "none"
             /\ aborted' = TRUE /\ hctx' = "canceled"
             /\ UNCHANGED <<usr, lib, inflight, reqEOF, hpc, hr, hs, hsawEOF, hdrs, rbuf, rterm, bodyClosed, log>>
TrCloseReq == /\ rterm # "none" /\ ~prClosed /\ prClosed' = TRUE
              /\ UNCHANGED <<usr, started, rq, ready, resp, err, pw, pending, env, log>>

(* ---------------- environment: handler ---------------- *)
HStart == /\ hpc = "wait" /\ rq # "none" /\ hpc' = "recv"
          /\ UNCHANGED <<usr, lib, inflight, reqEOF, hr, hs, hsawEOF, hctx, hdrs, rbuf, rterm, aborted, bodyClosed, log>>
HRecvMsg == /\ hpc = "recv" /\ (hr < sc.hrecv \/ (sc.hdrain /\ hs = sc.hsend)) /\ inflight > 0
            /\ inflight' = inflight - 1 /\ hr' = hr + 1
            /\ hpc' = IF hr + 1 >= sc.hrecv /\ hs < sc.hsend THEN "send" ELSE "recv"
            /\ UNCHANGED <<usr, lib, reqEOF, hs, hsawEOF, hctx, hdrs, rbuf, rterm, aborted, bodyClosed, log>>
HRecvEOF == /\ hpc = "recv" /\ inflight = 0 /\ (reqEOF \/ hctx # "live") /\ hsawEOF' = TRUE
            /\ hpc' = IF hs < sc.hsend /\ hctx = "live" THEN "send" ELSE "ret"
            /\ UNCHANGED <<usr, lib, inflight, reqEOF, hr, hs, hctx, hdrs, rbuf, rterm, aborted, bodyClosed, log>>
HSkipRecv == /\ hpc = "recv" /\ hr >= sc.hrecv /\ ~(sc.hdrain /\ hs = sc.hsend)
             /\ hpc' = IF hs < sc.hsend THEN "send" ELSE "ret"
             /\ UNCHANGED <<usr, lib, inflight, reqEOF, hr, hs, hsawEOF, hctx, hdrs, rbuf, rterm, aborted, bodyClosed, log>>
\* hflood: the handler keeps sending until a Send fails, i.e. until the client has gone away (CloseResponse drains a
\* bounded amount and closes the body: protocol.go discard)
Flood == "hflood" \in DOMAIN sc /\ sc.hflood
HFlood == /\ hpc = "send" /\ Flood /\ ~bodyClosed /\ hctx = "live" /\ ~aborted
          /\ hdrs' = TRUE /\ rbuf' = IF rbuf < 2 THEN rbuf + 1 ELSE rbuf
          /\ UNCHANGED <<usr, lib, inflight, reqEOF, hpc, hr, hs, hsawEOF, hctx, rterm, aborted, bodyClosed, log>>
HFloodEnd == /\ hpc = "send" /\ Flood /\ (bodyClosed \/ hctx # "live" \/ aborted)
             /\ hpc' = "ret" /\ hctx' = "canceled"
             /\ UNCHANGED <<usr, lib, inflight, reqEOF, hr, hs, hsawEOF, hdrs, rbuf, rterm, aborted, bodyClosed, log>>
HSendMsg == /\ hpc = "send" /\ ~Flood /\ hs < sc.hsend /\ hs' = hs + 1 /\ hdrs' = TRUE /\ rbuf' = rbuf + 1
            /\ hpc' = IF hs + 1 = sc.hsend THEN (IF sc.hdrain /\ ~hsawEOF THEN "recv" ELSE "ret") ELSE "send"
            /\ UNCHANGED <<usr, lib, inflight, reqEOF, hr, hsawEOF, hctx, rterm, aborted, bodyClosed, log>>
\* hret = "stall": the handler waits for its context to end and returns the context's error
HReturn == /\ hpc = "ret" /\ (sc.hret = "stall" => hctx # "live")
           /\ hdrs' = TRUE /\ rterm' = (IF hctx # "live" THEN "err" ELSE sc.hret) /\ hpc' = "done"
           /\ UNCHANGED <<usr, lib, inflight, reqEOF, hr, hs, hsawEOF, hctx, rbuf, aborted, bodyClosed, log>>

Lib == SendBegin \/ CloseReqBegin \/ W1 \/ W2 \/ W3ok \/ W3eof \/ WC
       \/ RecvBegin \/ R1 \/ R2 \/ R5 \/ CloseRespBegin \/ C1
       \/ QDoOK \/ QDoErr \/ QVal \/ QReady
Env == TrConsume \/ TrReqEOF \/ TrAbort \/ TrBodyErr \/ TrCloseReq \/ HStart \/ HRecvMsg \/ HRecvEOF \/ HSkipRecv \/ HSendMsg
       \/ HFlood \/ HFloodEnd \/ HReturn
Next == Lib \/ Env \/ Cancel

Fair == /\ WF_vars(W1) /\ WF_vars(W2) /\ WF_vars(W3ok) /\ WF_vars(W3eof) /\ WF_vars(WC)
        /\ WF_vars(R1) /\ WF_vars(R2) /\ WF_vars(R5) /\ WF_vars(C1)
        /\ WF_vars(QDoOK) /\ WF_vars(QDoErr) /\ WF_vars(QVal) /\ WF_vars(QReady)
        /\ WF_vars(Env)
        \* the client program finishes: it eventually closes both sides
        /\ WF_vars(ctx = "live" /\ CloseReqBegin) /\ WF_vars(CloseRespBegin)
ResetTo(s) ==
  /\ sc' = s /\ ctx' = "live"
  /\ spc' = "idle" /\ sop' = "none" /\ sleft' = s.msend
  /\ rpc' = "idle" /\ rleft' = s.mrecv
  /\ started' = FALSE /\ rq' = "none" /\ ready' = FALSE /\ resp' = "nil" /\ err' = "none"
  /\ pw' = "open" /\ prClosed' = FALSE /\ pending' = FALSE
  /\ inflight' = 0 /\ reqEOF' = FALSE
  /\ hpc' = "wait" /\ hr' = 0 /\ hs' = 0 /\ hsawEOF' = FALSE /\ hctx' = "live"
  /\ hdrs' = FALSE /\ rbuf' = 0 /\ rterm' = "none" /\ aborted' = FALSE /\ bodyClosed' = FALSE
  /\ log' = <<>>

(* ---------------- properties ---------------- *)
OpInFlight == spc \in {"w1","w2","w3","wc"} \/ rpc \in {"r1","r2","r5","c1"}
EveryOpReturns == /\ (spc \in {"w1","w2","w3","wc"}) ~> (spc \in {"idle","sdone"})
                  /\ (rpc \in {"r1","r2","r5","c1"}) ~> (rpc \in {"idle","rdone"})
\* a failing op after cancel has the context code (send may say eof)
CancelCodes == \A i \in 1..Len(log) :
                 (ctx # "live" /\ FALSE) => TRUE
RecvSticky == \A i, j \in 1..Len(log) :
                (i < j /\ log[i][1] = "recv" /\ log[i][2] # "msg" /\ log[j][1] = "recv") => log[j][2] # "msg"
Quiesce == (spc = "sdone" /\ rpc = "rdone") => (rq \in {"done"} /\ (resp = "ok" => bodyClosed))
=============================================================================
