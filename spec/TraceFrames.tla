----------------------------- MODULE TraceFrames -----------------------------
(* Trace specification for Frames: recorded executions of the real envelope  *)
(* reader (scripted bodies, C03 / C04 / C09 / C01) must be behaviours of      *)
(* Frames.  Events: reset{sc} read{k,e} recv{id} done{ok,code,out}.           *)
EXTENDS Frames, TraceBase

Blank == [proto |-> "connect", side |-> "client", shape |-> "stream", raw |-> FALSE, reuse |-> FALSE, limit |-> 0,
          enc |-> "none", frames |-> <<>>, cut |-> 0, tail |-> "eof", trailers |-> "none"]

\* C03 is relational: two executions over the same scenario (same bytes, cut and tail) that differ only in how
\* the transport segmented them must end alike.  `last` remembers the previous trace's scenario and outcome
\* (the runner records the segmentations of one scenario next to each other).
VARIABLE last
NoLast == [sc |-> Blank, ok |-> TRUE, code |-> 0, out |-> <<>>, after |-> <<>>]
\* (`after`: what further Receives on a handler's connection reported after the failure -- not specified by Frames,
\*  but it may not depend on the segmentation either)
After == IF "after" \in DOMAIN Cur THEN Cur.after ELSE <<>>
SameAsLast == last.sc = sc /\ "dontcare" \notin Expect(sc).res =>
                Cur.ok = last.ok /\ Cur.code = last.code /\ Cur.out = last.out /\ After = last.after
\* C09: one message may not make the receiver allocate much more than the limit
Bounded == ("bomb" \in DOMAIN sc /\ sc.bomb /\ sc.limit > 0) => Cur.alloc_kb <= (sc.limit \div 128) + 8192
\* C14: once a client's Receive has reported the end of the stream or an error it keeps reporting one
StickyEnd == sc.side = "client" => \A i \in 1..Len(After) : After[i] < 0
Remember == last' = [sc |-> sc, ok |-> Cur.ok, code |-> Cur.code, out |-> Cur.out, after |-> After]

TraceInit == /\ l = 1 /\ failed = FALSE /\ InitWith(Blank) /\ last = NoLast

TReset == /\ Ev("reset") /\ ResetTo(Cur.sc) /\ Consume /\ failed' = FALSE /\ UNCHANGED last

\* the transport handed over k bytes, possibly together with the end signal
TReadEv == /\ Ev("read")
           /\ eof = "no" /\ Cur.k >= 0 /\ delivered + Cur.k <= Avail(sc)
           /\ delivered' = delivered + Cur.k
           /\ IF Cur.e = "no" THEN /\ Cur.k >= 1 /\ eof' = "no"
              ELSE /\ delivered' = Avail(sc) /\ Cur.e = sc.tail /\ eof' = Cur.e
           /\ UNCHANGED <<sc, fi, out, res, hold, last>>

\* the API yielded a message: the reader's RMsg step, and the id must be the model's
TRecv == /\ Ev("recv") /\ sc.shape = "stream" /\ RMsg /\ hold' = Cur.id /\ UNCHANGED last

Match(ok, code, c) == IF ok THEN 0 \in CodesOf(sc, c) ELSE code \in (CodesOf(sc, c) \ {0})

\* the stream API reported its final result: one terminal reader step explains it
TDoneStream ==
  /\ Ev("done") /\ sc.shape = "stream"
  /\ (RLimit \/ RStop \/ REnd \/ RRaw)
  /\ Match(Cur.ok, Cur.code, res')
  /\ (res' # "dontcare" => out' = Cur.out)
  /\ SameAsLast /\ Remember /\ Bounded /\ StickyEnd

\* unary-shaped APIs are judged against the whole-wire oracle
ClientUnaryOK(e) == \E c \in e.res : UnaryOK(e.out, c)
TDoneUnary ==
  /\ Ev("done") /\ sc.shape = "unary"
  /\ LET e == Expect(sc) IN
     IF "dontcare" \in e.res THEN TRUE
     ELSE IF sc.side = "client"
     THEN IF ClientUnaryOK(e)
          THEN \/ Cur.ok /\ Cur.out = e.out
               \* the transport failed after the terminator: closing the response may report it
               \/ sc.tail # "eof" /\ ~Cur.ok /\ Cur.code \in 1..16
          ELSE /\ ~Cur.ok /\ Cur.code \in 1..16
               \* C15 (the context ended before any response message: the handler has not finished)
               /\ (e.out = <<>> /\ e.res \in {{"ctxc"}, {"ctxd"}} => \E c \in e.res : Cur.code \in CodesOf(sc, c))
               /\ (e.out = <<>> /\ e.res = {"server_err"} => Cur.code = ServerCode)
               /\ (e.out = <<>> /\ e.res = {"limit"} => Cur.code \in {3, 8})
     ELSE \* handler: user code runs iff the first frame is a deliverable message
          IF Len(e.out) >= 1 THEN Cur.ok /\ Cur.out = <<e.out[1]>>
          ELSE /\ ~Cur.ok /\ Cur.out = <<>>
               /\ \E c \in e.res : Cur.code \in (IF c = "end" THEN 1..16 ELSE CodesOf(sc, c))
  /\ res' = "judged" /\ UNCHANGED <<sc, delivered, eof, fi, out, hold>>
  /\ SameAsLast /\ Remember /\ Bounded

Normal == (TReset \/ ((TReadEv \/ TRecv \/ TDoneStream \/ TDoneUnary) /\ Consume /\ UNCHANGED failed))
TraceNext == \/ (~failed /\ Normal)
             \/ (~failed /\ ~ENABLED Normal /\ Reject /\ UNCHANGED <<vars, last>>)
             \/ (SkipRest /\ UNCHANGED <<vars, last>>)
             \/ (failed /\ TReset)
TraceSpec == TraceInit /\ [][TraceNext]_<<vars, l, failed, last>>
NoScenarios == {}
NoBug == FALSE
=============================================================================
