------------------------------ MODULE TraceBase ------------------------------
(***************************************************************************)
(* Common part of every trace specification.  A trace file is NDJSON; every *)
(* trace in it starts with a "reset" event carrying the scenario, so one    *)
(* TLC run judges thousands of independent traces.                          *)
(*                                                                         *)
(* A trace specification never gets stuck: when no specification action    *)
(* can take the next event the trace is REJECTED (line printed, `failed`    *)
(* set) and the remaining events of that trace are skipped up to the next   *)
(* reset.  This is sound only for trace specifications whose steps are      *)
(* deterministic given the logged event (all of them except TraceCall,      *)
(* which is validated one trace per run).                                   *)
(***************************************************************************)
EXTENDS Integers, Sequences, TLC, Json, IOUtils

Trace == ndJsonDeserialize(IOEnv.TRACE_FILE)

VARIABLES l,        \* index of the next event
          failed    \* the current trace has been rejected

Ev(e)  == l <= Len(Trace) /\ Trace[l].ev = e
Cur    == Trace[l]
Has(f) == f \in DOMAIN Trace[l]
Consume == l' = l + 1

Reject   == /\ ~failed /\ l <= Len(Trace) /\ Trace[l].ev # "reset"
            /\ PrintT(<<"REJECT", l>>)
            /\ failed' = TRUE /\ l' = l + 1
SkipRest == /\ failed /\ l <= Len(Trace) /\ Trace[l].ev # "reset"
            /\ l' = l + 1 /\ UNCHANGED failed

HWM == TLCSet(1, IF TLCGet(1) < l THEN l ELSE TLCGet(1))
TraceAccepted == IF TLCGet(1) = Len(Trace) + 1 THEN TRUE
                 ELSE Print(<<"TRACE_INCOMPLETE", TLCGet(1), Len(Trace)>>, FALSE)
ASSUME TLCSet(1, 0)
=============================================================================
