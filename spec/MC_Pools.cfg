CONSTANTS Bufs <- MCBufs
Calls <- MCCalls
DoublePut <- No
SPECIFICATION Spec
INVARIANT Exclusive
CHECK_DEADLOCK FALSE
