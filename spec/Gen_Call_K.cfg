CONSTANTS MaxSend = 2
MaxRecv = 2
MaxAfter = 2
SPECIFICATION KSpec
INVARIANT KEmit
CHECK_DEADLOCK FALSE
