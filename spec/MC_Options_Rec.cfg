SPECIFICATION RecSpec
INVARIANTS DeclarationOrder ExactlyOnce
CHECK_DEADLOCK FALSE
