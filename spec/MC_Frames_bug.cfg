CONSTANT Scenarios <- NoScenarios
CONSTANT ZeroShortcut <- MCZeroShortcutBug
SPECIFICATION MCSpec
INVARIANTS PrefixOfSent
CHECK_DEADLOCK FALSE
