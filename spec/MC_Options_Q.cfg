CONSTANT Names <- NamesQ
CONSTANT MaxLen <- MaxLenQ
SPECIFICATION MCSpec
INVARIANTS DeclarationOrder ExactlyOnce FirstIsOutermost
CHECK_DEADLOCK FALSE
