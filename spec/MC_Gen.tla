------------------------------- MODULE MC_Gen -------------------------------
EXTENDS Gen, Json
Kinds == {"unary", "client", "server", "bidi"}
Keywords == {"Break", "Default", "Func", "Interface", "Select", "Case", "Defer", "Go", "Map", "Struct", "Chan", "Else",
             "Goto", "Package", "Switch", "Const", "Fallthrough", "If", "Range", "Type", "Continue", "For", "Import",
             "Return", "Var"}
Plain == {"Do", "do_it", "GetThing", "String", "Error", "Len", "New", "X"}
M(n, k) == [name |-> n, kind |-> k]
S(n, ms) == [name |-> n, methods |-> ms]
\* sibling: the same plugin invocation also generates -- first -- another file, from another package, that declares
\* services and methods with the same names (the v1 / v2 layout); what is generated for this file does not depend on it
\* msgs: the methods take and return messages declared in this very file (so the generated code imports the file's
\* own Go package, whatever its name), not google.protobuf.Empty
D(p, ss, gp, dep, sib) == [pkg |-> p, services |-> ss, gopkg |-> gp, deprecated |-> dep, sibling |-> sib, msgs |-> FALSE]
Pkgs == {"", "acme", "acme.ping.v1"}
GoPkgs == {"example.com/gen/t;tpb", "example.com/gen/t"}
\* one service, one method: every name class x kind x package form
InitA == \E p \in Pkgs, n \in Plain \cup Keywords, k \in Kinds, sn \in {"Svc", "my_svc", "Type"}, sib \in BOOLEAN :
           /\ (sib => n \in Plain)
           /\ InitWith(D(p, <<S(sn, <<M(n, k)>>)>>, "example.com/gen/t;tpb", FALSE, sib))
\* several methods / services, deprecation, go_package forms
InitB == \E p \in Pkgs, gp \in GoPkgs, dep \in BOOLEAN, k1 \in Kinds, k2 \in Kinds, sib \in BOOLEAN :
           InitWith(D(p, <<S("Alpha", <<M("One", k1), M("Two", k2), M("Import", "unary")>>), S("beta_svc", <<M("Go", k2)>>)>>, gp, dep, sib))
\* a file without services
InitC == \E p \in Pkgs, sib \in BOOLEAN : InitWith(D(p, <<>>, "example.com/gen/t;tpb", FALSE, sib))
\* services whose generated identifiers meet: the constructor of one is the interface of the other, the same Go name
\* from two Protobuf names
InitD == \E p \in Pkgs, k \in Kinds, pair \in {<<"Foo", "NewFoo">>, <<"NewFoo", "Foo">>, <<"X", "UnimplementedX">>, <<"foo", "Foo">>,
                                            <<"Foo", "New_Foo">>} :
           InitWith(D(p, <<S(pair[1], <<M("Do", k)>>), S(pair[2], <<M("Do", "unary")>>)>>, "example.com/gen/t;tpb", FALSE, FALSE))
\* Go package names that meet the packages the generated code imports itself (net/http, context, errors, strings)
InitE == \E p \in Pkgs, k1 \in Kinds, k2 \in Kinds,
            gp \in {"example.com/gen/http;http", "example.com/gen/api/http", "example.com/gen/context", "example.com/gen/errors;errors",
                    "example.com/gen/strings", "example.com/gen/connect;connect", "example.com/gen/t;tpb",
                    \* ... and the names of the generated constructors' own parameters and locals
                    "example.com/gen/opts", "example.com/gen/baseURL", "example.com/gen/httpClient", "example.com/gen/svc",
                    "example.com/gen/mux", "example.com/gen/c;c", "example.com/gen/ctx", "example.com/gen/req"} :
           InitWith([D(p, <<S("Alpha", <<M("One", k1), M("Two", k2)>>)>>, gp, FALSE, FALSE) EXCEPT !.msgs = TRUE])
\* services without methods (valid Protobuf: a placeholder), alone and next to an ordinary one
InitF == \E p \in Pkgs, k \in Kinds, shape \in 1..3 :
           InitWith(D(p, CASE shape = 1 -> <<S("Placeholder", <<>>)>>
                           [] shape = 2 -> <<S("Placeholder", <<>>), S("Alpha", <<M("One", k)>>)>>
                           [] shape = 3 -> <<S("Alpha", <<M("One", k)>>), S("Placeholder", <<>>)>>,
                    "example.com/gen/t;tpb", FALSE, FALSE))
MCInit == InitA \/ InitB \/ InitC \/ InitD \/ InitE \/ InitF
MCSpec == MCInit /\ [][Next]_vars
GenSpec == MCInit /\ [][FALSE]_vars
Emit == pc = "start" => PrintT(ToJson(sc))
=============================================================================
