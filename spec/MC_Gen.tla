------------------------------- MODULE MC_Gen -------------------------------
EXTENDS Gen, Json
Kinds == {"unary", "client", "server", "bidi"}
Keywords == {"Break", "Default", "Func", "Interface", "Select", "Case", "Defer", "Go", "Map", "Struct", "Chan", "Else",
             "Goto", "Package", "Switch", "Const", "Fallthrough", "If", "Range", "Type", "Continue", "For", "Import",
             "Return", "Var"}
Plain == {"Do", "do_it", "GetThing", "String", "Error", "Len", "New", "X"}
M(n, k) == [name |-> n, kind |-> k]
S(n, ms) == [name |-> n, methods |-> ms]
D(p, ss, gp, dep) == [pkg |-> p, services |-> ss, gopkg |-> gp, deprecated |-> dep]
Pkgs == {"", "acme", "acme.ping.v1"}
GoPkgs == {"example.com/gen/t;tpb", "example.com/gen/t"}
\* one service, one method: every name class x kind x package form
InitA == \E p \in Pkgs, n \in Plain \cup Keywords, k \in Kinds, sn \in {"Svc", "my_svc", "Type"} :
           InitWith(D(p, <<S(sn, <<M(n, k)>>)>>, "example.com/gen/t;tpb", FALSE))
\* several methods / services, deprecation, go_package forms
InitB == \E p \in Pkgs, gp \in GoPkgs, dep \in BOOLEAN, k1 \in Kinds, k2 \in Kinds :
           InitWith(D(p, <<S("Alpha", <<M("One", k1), M("Two", k2), M("Import", "unary")>>), S("beta_svc", <<M("Go", k2)>>)>>, gp, dep))
\* a file without services
InitC == \E p \in Pkgs : InitWith(D(p, <<>>, "example.com/gen/t;tpb", FALSE))
MCInit == InitA \/ InitB \/ InitC
MCSpec == MCInit /\ [][Next]_vars
GenSpec == MCInit /\ [][FALSE]_vars
Emit == pc = "start" => PrintT(ToJson(sc))
=============================================================================
