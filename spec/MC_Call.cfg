SPECIFICATION MCSpec
VIEW view
INVARIANTS RecvSticky Quiesce
PROPERTY EveryOpReturns
CHECK_DEADLOCK FALSE
