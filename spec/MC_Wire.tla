------------------------------- MODULE MC_Wire -------------------------------
(* Bounded configuration x program space for the design check of Wire, and the *)
(* scenario generators (one Init predicate per property family).               *)
EXTENDS Wire, Json

Protos == {"connect", "grpc", "grpcweb"}
Kinds  == {"unary", "client", "server", "bidi"}
M(i, n) == [id |-> i, vlen |-> n]
H(k, v) == [k |-> k, v |-> v]

ReqSeqs(kind, sizes) ==
  IF kind \in {"unary", "server"} THEN { <<M(1, a)>> : a \in sizes }
  ELSE { <<>> } \cup { <<M(1, a)>> : a \in sizes } \cup { <<M(1, a), M(2, b)>> : a \in sizes, b \in sizes }
RespSeqs(kind, sizes) ==
  IF kind \in {"unary", "client"} THEN { <<M(101, a)>> : a \in sizes }
  ELSE { <<>> } \cup { <<M(101, a)>> : a \in sizes } \cup { <<M(101, a), M(102, b)>> : a \in sizes, b \in sizes }

OK == [kind |-> "ok", code |-> 0, msg |-> "", ndet |-> 0, meta |-> <<>>, after |-> 0]
Err(c, m, n, meta, after) == [kind |-> "err", code |-> c, msg |-> m, ndet |-> n, meta |-> meta, after |-> after]
Plain(m, after) == [kind |-> "plain", code |-> 2, msg |-> m, ndet |-> 0, meta |-> <<>>, after |-> after]

Comps == { <<"none", <<>>>>, <<"gzip", <<>>>>, <<"none", <<"rev">>>>, <<"gzip", <<"rev">>>>, <<"rev", <<"rev">>>>,
           <<"rev2", <<"rev", "rev2">>>> }

Mk(p, k, codec, http, cs, cmin, hp, hmin, rh, rq, sh, st, rs, o) ==
  [proto |-> p, kind |-> k, codec |-> codec, http |-> http, transport |-> "mem",
   csend |-> cs[1], cmin |-> cmin, cacc |-> cs[2], hpools |-> hp, hmin |-> hmin,
   reqhdr |-> rh, req |-> rq, reqsize |-> [i \in 1..Len(rq) |-> rq[i].vlen],
   resphdr |-> sh, resptrl |-> st, resp |-> rs, respsize |-> [i \in 1..Len(rs) |-> rs[i].vlen], out |-> o]

HdrA == <<H("X-Req", <<"r1", "r2">>)>>
HdrB == <<H("X-Hdr", <<"h1", "h2">>), H("X-Both", <<"hb">>)>>
TrlB == <<H("X-Trl", <<"t1">>), H("X-Both", <<"tb">>)>>
MetaE == <<H("X-Err", <<"e1", "e2">>), H("X-Both", <<"eb">>)>>
MetaR == <<H("Grpc-Status", <<"14">>), H("Grpc-Message", <<"stale">>), H("X-Err", <<"e1">>)>>
\* what the metadata of an error received from another (HTTP/1.1, compressing) server holds besides the application's keys
MetaP == <<H("Content-Length", <<"5">>), H("Content-Encoding", <<"gzip">>), H("Content-Type", <<"application/grpc">>), H("X-Err", <<"e1">>)>>

(* design check: every stage x every protocol x kind, small programs *)
MCInit ==
  \E p \in Protos, k \in Kinds, cs \in Comps, hp \in {<<>>, <<"rev">>, <<"rev2", "rev">>}, cmin \in {0, 4}, hmin \in {0, 4},
     hd \in BOOLEAN :
    \E rq \in ReqSeqs(k, {0, 4}), rs \in RespSeqs(k, {0, 4}),
       o \in {OK, Plain("ascii", 1)} \cup { Err(5, "ascii", n, me, a) : n \in {0, 2}, me \in {<<>>, MetaE}, a \in {0, 1} } :
      InitWith(Mk(p, k, "proto", 2, cs, cmin, hp, hmin,
                  IF hd THEN HdrA ELSE <<>>, rq, IF hd THEN HdrB ELSE <<>>, IF hd THEN TrlB ELSE <<>>, rs, o))
MCSpec == MCInit /\ [][Next]_vars

(* the quick tier's design check: same stages, fewer program variants *)
MCInitQ ==
  \E p \in Protos, k \in Kinds, cs \in Comps, hp \in {<<>>, <<"rev2", "rev">>}, mins \in {<<0, 4>>, <<4, 0>>}, hd \in BOOLEAN :
    \E rq \in ReqSeqs(k, {4}), rs \in RespSeqs(k, {0, 4}),
       o \in {OK, Plain("ascii", 1), Err(5, "ascii", 2, MetaE, 1), Err(5, "ascii", 0, <<>>, 0)} :
      InitWith(Mk(p, k, "proto", 2, cs, mins[1], hp, mins[2],
                  IF hd THEN HdrA ELSE <<>>, rq, IF hd THEN HdrB ELSE <<>>, IF hd THEN TrlB ELSE <<>>, rs, o))
MCSpecQ == MCInitQ /\ [][Next]_vars

Emit == pc = "c_start" => PrintT(ToJson(sc))

HTTPs(k) == IF k = "bidi" THEN {2} ELSE {1, 2}

(* C01: message sequences: sizes around the thresholds, zeros anywhere, both directions, compression on/off *)
\* (value lengths; the encoded size is two bytes more up to 127, three above: 97, 98, 99 straddle the threshold of 100
\*  and 508, 509, 510 the pool's seed capacity of 512 -- a seeded change showed 511..513 had been three bytes off)
SzC01 == {0, 1, 508, 509, 510, 97, 98, 99}
GenC01Init ==
  \E p \in Protos, k \in Kinds, codec \in {"proto", "json"}, cs \in {<<"none", <<>>>>, <<"gzip", <<>>>>, <<"rev", <<"rev">>>>},
     hp \in {<<>>, <<"rev">>}, mins \in {<<0, 0>>, <<100, 100>>} :
    \E http \in HTTPs(k), rq \in ReqSeqs(k, SzC01), rs \in RespSeqs(k, SzC01) :
      /\ (cs[1] = "rev" => hp = <<"rev">>)          \* negotiation failures are C08's subject
      /\ InitWith(Mk(p, k, codec, http, cs, mins[1], hp, mins[2], <<>>, rq, <<>>, <<>>, rs, OK))
\* megabyte messages: around the 8 MiB cap above which a pooled buffer is not recycled, next to small ones
SzBig == {3145728, 8388600, 8388616}
GenC01BigInit ==
  \E p \in Protos, k \in Kinds, cs \in {<<"none", <<>>>>, <<"gzip", <<>>>>}, b \in SzBig, pos \in {1, 2} :
    \E http \in HTTPs(k) :
      LET seq(base) == IF pos = 1 THEN <<M(base + 1, b), M(base + 2, 3)>> ELSE <<M(base + 1, 3), M(base + 2, b), M(base + 3, 0)>>
          one(base) == <<M(base + 1, b)>> IN
      InitWith(Mk(p, k, "proto", http, cs, 0, <<>>, 0, <<>>,
                  IF k \in {"unary", "server"} THEN one(0) ELSE seq(0), <<>>, <<>>,
                  IF k \in {"unary", "client"} THEN one(100) ELSE seq(100), OK))
\* every encoded size from 503 to 518 (envelope and prefix together straddle 512 as well), followed by a marker message
GenC01EdgeInit ==
  \E p \in Protos, k \in Kinds, cs \in {<<"none", <<>>>>, <<"gzip", <<>>>>}, v \in 500..515 :
    \E http \in HTTPs(k) :
      InitWith(Mk(p, k, "proto", http, cs, 0, <<>>, 0, <<>>,
                  IF k \in {"unary", "server"} THEN <<M(1, v)>> ELSE <<M(1, v), M(2, 3)>>, <<>>, <<>>,
                  IF k \in {"unary", "client"} THEN <<M(101, v)>> ELSE <<M(101, v), M(102, 3)>>, OK))
GenC01Spec == (GenC01Init \/ GenC01BigInit \/ GenC01EdgeInit) /\ [][FALSE]_vars

(* C02: errors: every code x message class x details x metadata x carrier (messages sent before) *)
MsgClasses == {"empty", "ascii", "nonascii", "ctl", "pct", "crlf", "blanks", "long"}
GenC02Init ==
  \E p \in Protos, k \in Kinds, codec \in {"proto", "json"}, c \in 1..16, m \in MsgClasses, n \in {0, 1, 2},
     me \in {<<>>, MetaE, <<H("X-Multi", <<"a", "b", "c">>)>>, MetaR, MetaP}, a \in {0, 1, 2}, ek \in {"err", "wrapped", "ctxwrap"} :
    \E http \in HTTPs(k) :
      \* (unary: nothing can follow the response; client streaming: an interceptor's error can -- a = 1)
      /\ (k = "unary" => a = 0) /\ (k = "client" => a \in {0, 1} /\ (a = 1 => ek = "err"))
      /\ InitWith(Mk(p, k, codec, http, <<"none", <<>>>>, 0, <<>>, 0, <<>>, <<M(1, 3)>>, HdrB, TrlB,
                     IF k \in {"unary", "client"} THEN <<M(101, 3)>> ELSE <<M(101, 3), M(102, 0)>>,
                     [Err(c, m, n, me, a) EXCEPT !.kind = ek]))
GenC02PlainInit ==
  \E p \in Protos, k \in Kinds, codec \in {"proto", "json"}, m \in MsgClasses, a \in {0, 1} :
    /\ (k \in {"unary", "client"} => a = 0)
    /\ InitWith(Mk(p, k, codec, 2, <<"none", <<>>>>, 0, <<>>, 0, <<>>, <<M(1, 3)>>, <<>>, <<>>,
                   IF k \in {"unary", "client"} THEN <<M(101, 3)>> ELSE <<M(101, 3), M(102, 0)>>, Plain(m, a)))
\* the codec fails inside Send (custom codec "verifc"): internal, well-formed, nothing of the message on the wire
GenC02BadSendInit ==
  \E p \in Protos, k \in Kinds, a \in {0, 1}, hd \in BOOLEAN :
    /\ (k \in {"unary", "client"} => a = 0)
    /\ InitWith(Mk(p, k, "verifc", 2, <<"none", <<>>>>, 0, <<>>, 0, <<>>, <<M(1, 3)>>, IF hd THEN HdrB ELSE <<>>, IF hd THEN TrlB ELSE <<>>,
                   IF k \in {"unary", "client"} THEN <<M(101, 3)>> ELSE <<M(101, 3), M(102, 0)>>,
                   [kind |-> "badsend", code |-> 13, msg |-> "library", ndet |-> 0, meta |-> <<>>, after |-> a]))
GenC02Spec == (GenC02Init \/ GenC02PlainInit \/ GenC02BadSendInit) /\ [][FALSE]_vars

(* C08: negotiation: algorithm sets and registration orders on both sides, thresholds, sizes around them *)
ClientSets == { <<>>, <<"rev">>, <<"rev2">>, <<"rev", "rev2">>, <<"rev2", "rev">>, <<"rev", "gzip">> }
HandlerSets == { <<>>, <<"rev">>, <<"rev2">>, <<"rev", "rev2">>, <<"rev2", "rev">> }
GenC08Init ==
  \E p \in Protos, k \in Kinds, ca \in ClientSets, hp \in HandlerSets, cmin \in {0, 8}, hmin \in {0, 8} :
    \* value lengths 5, 6, 7: encoded sizes 7, 8, 9 (a BytesValue adds two bytes) around the threshold of 8
    \E csn \in {"none", "gzip"} \cup Range(ca), s1 \in {5, 6, 7}, s2 \in {5, 6, 7} :
      InitWith(Mk(p, k, "proto", 2, <<csn, ca>>, cmin, hp, hmin, <<>>, <<M(1, s1)>>, <<>>, <<>>, <<M(101, s2)>>, OK))
GenC08Spec == GenC08Init /\ [][FALSE]_vars

(* C11: header / trailer multimaps x outcome *)
HdrSets == { <<>>, <<H("X-Hdr", <<"h1">>)>>, HdrB, <<H("X-Hdr", <<"a, b", "c">>), H("X-Data-Bin", <<"AAEC/w">>)>> }
\* (names that begin with letters of the "Trailer-" prefix unary Connect puts in front of trailer names)
TrlSets == { <<>>, <<H("X-Trl", <<"t1">>)>>, TrlB, <<H("X-Trl", <<"t1", "t2", "t3">>), H("X-Sig-Bin", <<"/+8">>)>>,
             <<H("Trace-Id", <<"tr1">>), H("Tier", <<"gold">>), H("Timing-Bin", <<"AAEC">>), H("Retry-Trailer", <<"r">>)>> }
GenC11Init ==
  \E p \in Protos, k \in Kinds, codec \in {"proto", "json"}, rh \in HdrSets \cup {HdrA}, sh \in HdrSets, st \in TrlSets,
     o \in {OK, Err(9, "ascii", 0, MetaE, 0), Err(9, "ascii", 0, <<>>, 1), [Err(9, "ascii", 0, MetaE, 0) EXCEPT !.kind = "wrapped"],
            [Err(9, "ascii", 0, MetaE, 0) EXCEPT !.kind = "ctxwrap"]},
     nresp \in {0, 1, 2} :
    \E http \in HTTPs(k) :
      /\ (k \in {"unary", "client"} => nresp = 1 /\ o.after = 0)
      /\ InitWith(Mk(p, k, codec, http, <<"none", <<>>>>, 0, <<>>, 0, rh, <<M(1, 3)>>, sh, st,
                     SubSeq(<<M(101, 3), M(102, 2)>>, 1, nresp), o))
\* the codec refuses a response message (the first one, or a later one) after the handler set its metadata: the
\* failure still ends the response properly and the metadata is in the client's error
GenC11BadSendInit ==
  \E p \in Protos, k \in {"server", "bidi"}, a \in {0, 1}, sh \in HdrSets, st \in TrlSets :
    InitWith(Mk(p, k, "verifc", 2, <<"none", <<>>>>, 0, <<>>, 0, <<>>, <<M(1, 3)>>, sh, st, <<M(101, 3), M(102, 0)>>,
                [kind |-> "badsend", code |-> 13, msg |-> "library", ndet |-> 0, meta |-> <<>>, after |-> a]))
GenC11Spec == (GenC11Init \/ GenC11BadSendInit) /\ [][FALSE]_vars

(* C05, converse: a conformant foreign server (the reference codec) under every combination of the encoder's
   freedoms; the real client must decode to the values the program supplied *)
Choice(pb, lh, em, om, od, ho, lk, mk, xj) ==
  [PadBin |-> pb, LowerHex |-> lh, EscapeMore |-> em, OmitMessage |-> om, OmitDetails |-> od, HeadersOnly |-> ho,
   LowerKeys |-> lk, Mask |-> mk, ExtraJSON |-> xj, Encoding |-> "", DropStatus |-> FALSE]
GenPeerInit ==
  \E p \in Protos, k \in Kinds, codec \in {"proto", "json"}, pb \in BOOLEAN, lh \in BOOLEAN, om \in BOOLEAN, ho \in BOOLEAN,
     lk \in BOOLEAN, mk \in {0, 1, 2, 3}, flip \in BOOLEAN,
     o \in {OK, Err(5, "pct", 2, MetaE, 1), Err(16, "nonascii", 0, <<>>, 0), Err(9, "blanks", 1, MetaE, 2), Plain("ctl", 0)} :
    LET c == Choice(pb, lh, flip, om, ~flip, ho, lk, mk, flip) IN
    /\ (k \in {"unary", "client"} => o.after = 0)
    /\ InitWith(Mk(p, k, codec, 2, <<"gzip", <<>>>>, 0, <<>>, 0, HdrA,
                   IF k \in {"unary", "server"} THEN <<M(1, 3)>> ELSE <<M(1, 3), M(2, 0)>>, HdrB, TrlB,
                   IF k \in {"unary", "client"} THEN <<M(101, 3)>> ELSE <<M(101, 3), M(102, 0)>>, o)
                @@ [peer |-> "server", choices |-> c])
GenPeerSpec == GenPeerInit /\ [][FALSE]_vars
\* ... and a conformant foreign client: which messages are compressed, bare gRPC content types, padded -Bin values,
\* blanks in the accept list, no protocol-version header; against every outcome class of the handler program
RChoice(mk, pb, bc, sa, nv) == [Mask |-> mk, PadBin |-> pb, BareCT |-> bc, SpacedAccept |-> sa, NoVersion |-> nv,
                                ExplicitIdentity |-> ~nv]
GenPeerClientInit ==
  \E p \in Protos, k \in Kinds, codec \in {"proto", "json"}, cs \in {"none", "gzip", "rev"}, mk \in {0, 1, 2, 3},
     pb \in BOOLEAN, bc \in BOOLEAN, sa \in BOOLEAN, hp \in {<<>>, <<"rev">>},
     o \in {OK, Err(5, "pct", 2, MetaE, 1), Err(16, "nonascii", 0, <<>>, 0), Plain("ctl", 0)} :
    /\ (k \in {"unary", "client"} => o.after = 0)
    /\ (cs = "none" => mk = 0)
    /\ InitWith(Mk(p, k, codec, 2, <<cs, IF cs = "rev" THEN <<"rev">> ELSE <<>>>>, 0, hp, 0,
                   <<H("X-Req", <<"r1", "r2">>), H("X-Data-Bin", <<"AAEC/w", "/+8">>)>>,
                   IF k \in {"unary", "server"} THEN <<M(1, 3)>> ELSE <<M(1, 3), M(2, 0), M(3, 9)>>, HdrB, TrlB,
                   IF k \in {"unary", "client"} THEN <<M(101, 3)>> ELSE <<M(101, 3), M(102, 0)>>, o)
                @@ [peer |-> "client", rchoices |-> RChoice(mk, pb, bc, sa, ~sa)])
GenPeerClientSpec == GenPeerClientInit /\ [][FALSE]_vars
\* broken peers: the terminator is missing; several such calls run at once on one client (C13)
GenDropInit ==
  \E p \in Protos, k \in Kinds, codec \in {"proto", "json"}, n \in 1..40 :
    InitWith(Mk(p, k, codec, 2, <<"none", <<>>>>, 0, <<>>, 0, <<>>, <<M(1, 3 + n)>>, HdrB, <<>>,
                IF k \in {"unary", "client"} THEN <<M(101, 3)>> ELSE <<M(101, 3), M(102, 0)>>, OK)
             @@ [peer |-> "server", choices |-> [Choice(FALSE, FALSE, FALSE, FALSE, FALSE, FALSE, FALSE, 0, FALSE) EXCEPT !.DropStatus = TRUE]])
GenDropSpec == GenDropInit /\ [][FALSE]_vars
=============================================================================
