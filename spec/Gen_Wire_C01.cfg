SPECIFICATION GenC01Spec
INVARIANT Emit
CHECK_DEADLOCK FALSE
