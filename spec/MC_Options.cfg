SPECIFICATION MCSpec
INVARIANTS DeclarationOrder ExactlyOnce FirstIsOutermost
CHECK_DEADLOCK FALSE
