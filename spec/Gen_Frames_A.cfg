CONSTANT Scenarios <- NoScenarios
CONSTANT ZeroShortcut <- MCZeroShortcut
SPECIFICATION GenASpec
INVARIANT EmitA
CHECK_DEADLOCK FALSE
