CONSTANTS MaxSend = 2
MaxRecv = 3
MaxAfter = 2
SPECIFICATION Spec
INVARIANT Emit
CHECK_DEADLOCK FALSE
