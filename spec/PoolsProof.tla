----------------------------- MODULE PoolsProof -----------------------------
(* Unbounded safety of the ownership rule of Pools.tla, checked by TLAPS: for  *)
(* any set of buffers and calls, a buffer is never pooled and owned at once.   *)
EXTENDS Pools, TLAPS

THEOREM ExclusiveAlways == Spec => []Exclusive
<1>1. Init => Exclusive
  BY DEF Init, Exclusive, Owned
<1>2. Exclusive /\ [Next]_vars => Exclusive'
  <2> SUFFICES ASSUME Exclusive, [Next]_vars PROVE Exclusive'
    OBVIOUS
  <2>1. CASE UNCHANGED vars
    BY <2>1 DEF Exclusive, Owned, vars
  <2>2. ASSUME NEW c \in Calls, NEW b \in Bufs, Get(c, b) PROVE Exclusive'
    BY <2>2 DEF Get, Exclusive, Owned
  <2>3. ASSUME NEW c \in Calls, NEW b \in Bufs, Adopt(c, b) PROVE Exclusive'
    BY <2>3 DEF Adopt, Exclusive, Owned
  <2>4. ASSUME NEW c \in Calls, NEW b \in Bufs, Put(c, b) PROVE Exclusive'
    BY <2>4 DEF Put, Exclusive, Owned
  <2> QED BY <2>1, <2>2, <2>3, <2>4 DEF Next
<1> QED BY <1>1, <1>2, PTL DEF Spec
=============================================================================
