SPECIFICATION MCSpecNoWatch
VIEW view
PROPERTY EveryOpReturns
CHECK_DEADLOCK FALSE
