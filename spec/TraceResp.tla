------------------------------ MODULE TraceResp ------------------------------
(* Trace specification for Resp (C06): reset{sc} done{ok, code, n, lookup}.   *)
EXTENDS Resp, TraceBase
Blank == [proto |-> "connect", kind |-> "unary", status |-> 200, ctype |-> "match", enc |-> "none",
          hstatus |-> "absent", hdetails |-> "absent", tstatus |-> "absent", tdetails |-> "absent",
          cerr |-> "none", body |-> "good", casing |-> "canon", gmsg |-> "nf"]
TraceInit == l = 1 /\ failed = FALSE /\ InitWith(Blank)
TReset == Ev("reset") /\ ResetTo(Cur.sc) /\ Consume /\ failed' = FALSE
Fuzzed == "fuzz" \in DOMAIN sc /\ sc.fuzz > 0
TDone == /\ Ev("done") /\ Decide
         /\ Cur.closed >= 1              \* C14: whatever the response was, its body has been closed
         \* "terminates": a failed call gives up on a body that never ends after a bounded amount (what Receive's
         \* search for the trailers and CloseResponse drain: 4 MiB each)
         /\ ("drained_kb" \in DOMAIN Cur => Cur.drained_kb <= 12288)
         /\ IF Fuzzed
            THEN Cur.ok \/ Cur.code >= 1        \* arbitrary bytes: success or a coded non-OK error, nothing else
            ELSE /\ Allows(verdict', Cur.ok, Cur.code)
                 /\ (Cur.ok /\ ~UnaryConnect(sc) => Cur.n = Yield(sc))
                 /\ (LookupRequired(sc, Cur.ok) => Cur.lookup = "hit")
Normal == TReset \/ (TDone /\ Consume /\ UNCHANGED failed)
TraceNext == \/ (~failed /\ Normal)
             \/ (~failed /\ ~ENABLED Normal /\ Reject /\ UNCHANGED vars)
             \/ (SkipRest /\ UNCHANGED vars)
             \/ (failed /\ TReset)
TraceSpec == TraceInit /\ [][TraceNext]_<<vars, l, failed>>
=============================================================================
