SPECIFICATION TraceSpec
VIEW tview
CONSTRAINT HWM
POSTCONDITION TraceAccepted
CHECK_DEADLOCK FALSE
