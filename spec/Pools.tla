-------------------------------- MODULE Pools --------------------------------
(***************************************************************************)
(* Ownership of pooled buffers (buffer_pool.go) shared by all calls of a    *)
(* client or handler (C13; the "a corrupt call affects only itself" clause  *)
(* of C08).  A buffer is either in the pool or owned by exactly one call;   *)
(* fresh buffers may be adopted by a Put without a Get                      *)
(* (bytes.NewBuffer(raw) in the marshalers).                                *)
(*   Get(c, b)  -- pool hands b to call c                                   *)
(*   Put(c, b)  -- call c releases b (b need not come from the pool)        *)
(* A second Put of a buffer that is already pooled makes the pool hand the  *)
(* same memory to two calls: that is what DoublePut models.                 *)
(***************************************************************************)
EXTENDS Integers, FiniteSets, TLC
CONSTANTS Bufs, Calls, DoublePut     \* DoublePut = TRUE: a call may release a buffer twice (seeded defect)
VARIABLES pooled, owner              \* pooled \subseteq Bufs; owner : partial map buffer -> call
vars == <<pooled, owner>>
Owned == DOMAIN owner
Init == pooled = {} /\ owner = <<>>
Get(c, b)   == /\ b \notin Owned
               /\ pooled' = pooled \ {b}
               /\ owner' = [x \in Owned \cup {b} |-> IF x = b THEN c ELSE owner[x]]
Adopt(c, b) == /\ b \notin Owned /\ b \notin pooled
               /\ owner' = [x \in Owned \cup {b} |-> IF x = b THEN c ELSE owner[x]] /\ UNCHANGED pooled
Put(c, b)   == /\ b \in Owned /\ owner[b] = c
               /\ pooled' = pooled \cup {b}
               /\ owner' = [x \in Owned \ {b} |-> owner[x]]
\* the seeded defect: releasing again a buffer that is already back in the pool
PutAgain(c, b) == DoublePut /\ b \in pooled /\ b \notin Owned /\ UNCHANGED vars
Next == \E c \in Calls, b \in Bufs : Get(c, b) \/ Adopt(c, b) \/ Put(c, b)
Spec == Init /\ [][Next]_vars
Exclusive == pooled \cap Owned = {}
=============================================================================
