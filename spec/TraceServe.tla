----------------------------- MODULE TraceServe -----------------------------
(* Trace specification for Serve (C07, C12, C10 handler half).                 *)
(* Events: reset{sc}  stage{name}*  done{status, allow, ap, ran, iran, msgs,   *)
(*         code, dl, proc, stype, problems}                                    *)
EXTENDS Serve, TraceBase
Blank == [kind |-> "unary", method |-> "POST", major |-> 2, minor |-> 0, ctype |-> "application/proto", codecs |-> <<>>,
          enc |-> "none", theader |-> "none", timeout |-> <<>>, body |-> "good", limit |-> 0]
TraceInit == l = 1 /\ failed = FALSE /\ InitWith(Blank)
TReset == Ev("reset") /\ ResetTo(Cur.sc) /\ Consume /\ failed' = FALSE

\* the stages the handler evidently went through are the pipeline's
TStage == Ev("stage") /\ Cur.name = pc /\ Next

StreamTypeOf(k) == CASE k = "unary" -> 0 [] k = "client" -> 1 [] k = "server" -> 2 [] k = "bidi" -> 3
DlOK(want, got) == IF want.k \in {"none", "unbounded"} THEN got = -1
                   ELSE IF want.k = "big" THEN got = 1073741824
                   ELSE got >= 0 /\ got <= want.ms /\ got >= want.ms - 5000      \* (-1: user code saw no deadline)
Fuzzed == "fuzz" \in DOMAIN sc /\ sc.fuzz > 0

TDone ==
  /\ Ev("done") /\ pc = "done" /\ UNCHANGED vars
  /\ Cur.problems = <<>>
  /\ Cur.ran \in {0, 1} /\ Cur.iran \in {0, 1}
  /\ IF r.bare
     THEN /\ Cur.status = r.status /\ Cur.ran = 0 /\ Cur.iran = 0
          /\ (r.status = 405 => Cur.allow = "POST")
          /\ (r.status = 415 => Range(Cur.ap) = AcceptPost(sc) /\ Len(Cur.ap) = Cardinality(AcceptPost(sc)))
     ELSE IF Fuzzed /\ sc.enc # "unknown" /\ TimeoutOK(sc)
     THEN \* arbitrary body bytes in a request that gets as far as its body: anything but a malformed response; user
          \* code at most once.  (The class of the scenario the bytes replaced says nothing: random bytes can be a
          \* message -- a thorough run met five bytes that were.)
          Cur.status \notin {405, 415, 505}
     ELSE \E v \in {r} \cup Alternative(sc) :
          /\ Cur.code \in v.codes /\ Cur.ran \in v.ran /\ Cur.iran \in v.iran
          /\ Cur.status = (IF RawBody(sc) /\ Cur.code # 0 THEN HTTPStatusOf(Cur.code) ELSE 200)
          /\ (v.codes # 0..16 /\ Cur.ran = 1 => Cur.msgs = v.msgs)
          /\ (Cur.ran = 0 => Cur.msgs = <<>>)
          /\ (Cur.ran = 1 => /\ DlOK(v.dl, Cur.dl)
                             /\ Cur.proc = "/verif.v1.Svc/Method" /\ Cur.stype = StreamTypeOf(sc.kind))

Normal == TReset \/ ((TStage \/ TDone) /\ Consume /\ UNCHANGED failed)
TraceNext == \/ (~failed /\ Normal)
             \/ (~failed /\ ~ENABLED Normal /\ Reject /\ UNCHANGED vars)
             \/ (SkipRest /\ UNCHANGED vars)
             \/ (failed /\ TReset)
TraceSpec == TraceInit /\ [][TraceNext]_<<vars, l, failed>>
=============================================================================
