CONSTANT Scenarios <- NoScenarios
CONSTANT ZeroShortcut <- MCZeroShortcut
SPECIFICATION GenCSpec
INVARIANT EmitA
CHECK_DEADLOCK FALSE
