CONSTANTS MaxSend = 1
MaxRecv = 2
MaxAfter = 2
SPECIFICATION Spec
INVARIANT Emit
CHECK_DEADLOCK FALSE
