----------------------------- MODULE Gen_Frames -----------------------------
(* Scenario generators for the Frames family.  TLC enumerates the abstract    *)
(* domain and prints one JSON line per scenario; the Go runner concretises.    *)
EXTENDS MC_Frames, Json

VARIABLES script,   \* history: the read sizes chosen so far (a segmentation)
          ew        \* the end signal comes together with the last data

gvars == <<vars, script, ew>>

WithExpect(s) == [sc |-> s, expect |-> [out |-> Expect(s).out, res |-> Expect(s).res]]

(* A: every scenario of the design check (all bodies x cuts x tails x limits ...) *)
GenAInit == MCInit /\ script = <<>> /\ ew = FALSE
GenASpec == GenAInit /\ [][FALSE]_gvars
EmitA == PrintT(ToJson(WithExpect(sc)))

(* B: every segmentation of small complete bodies, as paths *)
SegBodies(p, sd) ==
  IF sd = "handler" THEN { <<Msg(1)>>, <<Zero, Msg(1)>>, <<Msg(1), Msg(2)>> }
  ELSE IF p = "grpc" THEN { <<Msg(1)>>, <<Zero, Msg(1)>> }
  ELSE { <<Msg(1), EndOK(p)>>, <<Zero, EndErr(p)>> }
GenBInit ==
  /\ \E p \in {"connect", "grpc", "grpcweb"}, sd \in {"client", "handler"} : \E b \in SegBodies(p, sd) :
       InitWith(Base(p, sd, 0, "none", b, BLen(b) + 1, "eof", IF p = "grpc" /\ sd = "client" THEN "ok" ELSE "none"))
  /\ script = <<>> /\ ew = FALSE
Bounds(s) == UNION { {Start(s, i) + Pre(s), End(s, i)} : i \in 1..Len(s.frames) }
NextB(s, d) == CHOOSE x \in Bounds(s) : x > d /\ \A y \in Bounds(s) : y > d => x <= y
GenBNext ==
  \/ /\ delivered < Avail(sc)
     /\ \E k \in 1..(NextB(sc, delivered) - delivered) : TRead(k) /\ script' = Append(script, k)
     /\ ew' = ew
  \/ /\ delivered = Avail(sc) /\ eof = "no"
     /\ eof' = sc.tail /\ ew' \in BOOLEAN
     /\ UNCHANGED <<sc, delivered, fi, out, res, hold, script>>
GenBSpec == GenBInit /\ [][GenBNext]_gvars
EmitB == (eof # "no") => PrintT(ToJson([sc |-> sc, script |-> script, eofwith |-> ew]))

(* C: read-limit scenarios (C09): sizes around N, inflated sizes around N, lying prefixes *)
LMsg(n, i)      == F(0, n, "msg", i)
LCMsg(w, n, i)  == FC(1, w, n, "msg", i, FALSE)
Lying(n)        == F(0, n, "msg", 7)
GenCInit ==
  /\ \E p \in {"connect", "grpc", "grpcweb"}, sd \in {"client", "handler"}, N \in {16, 64} :
     \E d \in {-1, 0, 1, 40}, pos \in 1..3, cmp \in {"plain", "inflated", "wire"} :
       LET big == IF cmp = "plain" THEN LMsg(N + d, 9)
                  ELSE IF cmp = "inflated" THEN LCMsg(8, N + d, 9)
                  ELSE LCMsg(N + d, N + d, 9)
           pre == [i \in 1..(pos - 1) |-> LMsg(N - 2, i)]
           tailf == IF p = "grpc" \/ sd = "handler" THEN <<>> ELSE <<EndOK(p)>>
           b == pre \o <<big>> \o tailf
       IN InitWith(Base(p, sd, N, IF cmp = "plain" THEN "none" ELSE "gzip", b, BLen(b) + 1, "eof",
                        IF p = "grpc" /\ sd = "client" THEN "ok" ELSE "none"))
  /\ script = <<>> /\ ew = FALSE
GenCSpec == GenCInit /\ [][FALSE]_gvars

(* D: memory attacks (C09): a highly compressible payload (wire size <= N << inflated size), a prefix that
   declares a gigabyte that never arrives, and the largest possible limit *)
BombF == [flag |-> 1, len |-> 64, ilen |-> 67108864, body |-> "msg", id |-> 9, corrupt |-> FALSE]
LieF  == [flag |-> 0, len |-> 1073741824, ilen |-> 1073741824, body |-> "msg", id |-> 9, corrupt |-> FALSE, lie |-> TRUE]
GenDInit ==
  /\ \E p \in {"connect", "grpc", "grpcweb"}, sd \in {"client", "handler"},
        atk \in {"bomb", "lie", "lieflag", "maxlimit", "maxlimitz", "limit4g", "limit4g16", "limit4g16z"}, pos \in 1..2 :
       LET pre == [i \in 1..(pos - 1) |-> LMsg(20, i)]
           tr == IF p = "grpc" /\ sd = "client" THEN "ok" ELSE "none"
           tf == IF p = "grpc" \/ sd = "handler" THEN <<>> ELSE <<EndOK(p)>>
       IN IF atk = "bomb"
          THEN InitWith(Base(p, sd, 131072, "gzip", pre \o <<BombF>> \o tf, 2000000000, "eof", tr) @@ [bomb |-> TRUE])
          ELSE IF atk = "lie"
          THEN InitWith(Base(p, sd, 131072, "none", pre \o <<LieF>>, BLen(pre) + 13, "eof", "none") @@ [bomb |-> TRUE])
          ELSE IF atk = "lieflag"   \* the same lie in an envelope flagged as the protocol's terminator
          THEN InitWith(Base(p, sd, 131072, "none", pre \o <<[LieF EXCEPT !.flag = TFlag(p), !.body = "endok"]>>,
                             BLen(pre) + 13, "eof", "none") @@ [bomb |-> TRUE])
          \* huge limits -- the largest int, 2^32, 2^32 + 16 -- are limits like any other: small messages pass, plain
          \* ("none") or compressed ("...z")
          ELSE LET z == atk \in {"maxlimitz", "limit4g16z"}
                   big == IF atk \in {"maxlimit", "maxlimitz"} THEN "maxint" ELSE IF atk = "limit4g" THEN "4g" ELSE "4g16" IN
               InitWith(Base(p, sd, 0, IF z THEN "gzip" ELSE "none",
                             pre \o <<IF z THEN LCMsg(20, 40, 9) ELSE LMsg(40, 9)>> \o tf, 2000000000, "eof", tr)
                        @@ [maxlimit |-> TRUE, biglimit |-> big])
  /\ script = <<>> /\ ew = FALSE
\* the largest possible limit on the unary Connect path (no envelope)
GenDRawInit ==
  /\ \E sd \in {"client", "handler"}, enc \in {"none", "gzip"} :
       InitWith([proto |-> "connect", side |-> sd, shape |-> "unary", raw |-> TRUE, reuse |-> FALSE, limit |-> 0, enc |-> enc,
                 frames |-> <<IF enc = "gzip" THEN LCMsg(20, 40, 9) ELSE LMsg(40, 9)>>, cut |-> 2000000000, tail |-> "eof",
                 trailers |-> "none", maxlimit |-> TRUE, biglimit |-> "maxint"])
  /\ script = <<>> /\ ew = FALSE
\* the error body of a non-200 unary Connect response: a bomb under a limit
GenDErrBodyInit ==
  /\ \E st \in {500, 404} :
       InitWith([proto |-> "connect", side |-> "client", shape |-> "unary", raw |-> TRUE, reuse |-> FALSE, limit |-> 131072,
                 enc |-> "gzip", frames |-> <<BombF>>, cut |-> 2000000000, tail |-> "eof", trailers |-> "none",
                 bomb |-> TRUE, status |-> st])
  /\ script = <<>> /\ ew = FALSE
GenDSpec == (GenDInit \/ GenDRawInit \/ GenDErrBodyInit) /\ [][FALSE]_gvars
=============================================================================
