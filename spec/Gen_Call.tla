------------------------------ MODULE Gen_Call ------------------------------
(* Client programs for the call-level checks (C14, C15), as paths: every         *)
(* sequence over {send, closereq, recv, closeresp, cancel} that obeys the        *)
(* property's discipline (request side started before the response side is      *)
(* used; ends by closing the request side and then the response side, or by      *)
(* cancelling), crossed with the handler programs.  A recv is generated only     *)
(* where the pair has no application-level circular wait: the handler is         *)
(* bound to produce a message or to terminate given what was already sent.       *)
EXTENDS Integers, Sequences, TLC, Json
CONSTANTS MaxSend, MaxRecv, MaxAfter     \* MaxAfter: operations still tried after a cancellation
VARIABLES h, prog, sends, recvs, creq, cresp, canc, after
gv == <<h, prog, sends, recvs, creq, cresp, canc, after>>
Handlers == { [hrecv |-> a, hsend |-> b, hdrain |-> d, hret |-> r] :
                a \in 0..2, b \in 0..2, d \in BOOLEAN, r \in {"ok", "err"} }
            \cup { [hrecv |-> a, hsend |-> b, hdrain |-> FALSE, hret |-> "stall"] : a \in 0..1, b \in 0..1 }
Init == /\ h \in Handlers /\ prog = <<>> /\ sends = 0 /\ recvs = 0 /\ creq = FALSE /\ cresp = FALSE
        /\ canc = "no" /\ after = 0
Started == sends > 0 \/ creq
Budget == canc = "no" \/ after < MaxAfter
Op(o) == /\ prog' = Append(prog, o) /\ after' = IF canc = "no" THEN after ELSE after + 1
AddSend == /\ ~creq /\ ~cresp /\ sends < MaxSend /\ Budget /\ Op([op |-> "send"]) /\ sends' = sends + 1
           /\ UNCHANGED <<h, recvs, creq, cresp, canc>>
AddCloseReq == /\ ~creq /\ ~cresp /\ Budget /\ Op([op |-> "closereq"]) /\ creq' = TRUE
               /\ UNCHANGED <<h, sends, recvs, cresp, canc>>
\* no circular wait: the handler got what it waits for, or the request side is closed, or the context is gone
RecvSafe == \/ (creq /\ h.hret # "stall")
            \/ canc # "no"
            \/ sends >= h.hrecv /\ (recvs < h.hsend \/ (~h.hdrain /\ h.hret # "stall"))  \* a message is due, or the handler returns
AddRecv == /\ Started /\ ~cresp /\ recvs < MaxRecv /\ RecvSafe /\ Budget /\ Op([op |-> "recv"]) /\ recvs' = recvs + 1
           /\ UNCHANGED <<h, sends, creq, cresp, canc>>
AddCloseResp == /\ Started /\ ~cresp /\ (creq \/ canc # "no") /\ (h.hret = "stall" => canc # "no") /\ Budget /\ Op([op |-> "closeresp"]) /\ cresp' = TRUE
                /\ UNCHANGED <<h, sends, recvs, creq, canc>>
\* cancel() / deadline between two operations, or while the next operation is in progress ("during")
\* (also before anything was sent: "cancelled before the call")
AddCancel == /\ canc = "no" /\ ~cresp
             /\ \E how \in {"canceled", "expired"}, mode \in {"between", "during"} :
                  /\ prog' = Append(prog, [op |-> "cancel", how |-> how, mode |-> mode]) /\ canc' = how
             /\ UNCHANGED <<h, sends, recvs, creq, cresp, after>>
Next == AddSend \/ AddCloseReq \/ AddRecv \/ AddCloseResp \/ AddCancel
Spec == Init /\ [][Next]_gv
Complete == cresp \/ (canc # "no" /\ after >= 1)
Emit == Complete => PrintT(ToJson([h |-> h, prog |-> prog, msend |-> sends, mrecv |-> recvs]))

=============================================================================
