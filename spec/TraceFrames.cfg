CONSTANT Scenarios <- NoScenarios
CONSTANT ZeroShortcut <- NoBug
SPECIFICATION TraceSpec
CONSTRAINT HWM
POSTCONDITION TraceAccepted
CHECK_DEADLOCK FALSE
