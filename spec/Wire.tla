-------------------------------- MODULE Wire --------------------------------
(***************************************************************************)
(* One complete call at the level of application data and wire tokens:      *)
(* what the client writes (content type, encoding headers, one flag per     *)
(* message), what the handler negotiates, what user code sees, what the     *)
(* handler writes back (status, headers, frames, terminator, the carrier of *)
(* error code / message / details / metadata in each protocol) and what the *)
(* client's API finally yields.  One action per stage of the code:          *)
(*   CStart   client.go / protocol_*.go WriteRequestHeader + Send           *)
(*   HNeg     handler.go ServeHTTP -> NewConn -> negotiateCompression       *)
(*   HRun     the user's handler function                                   *)
(*   HResp    handler conn Send* / Close                                    *)
(*   CSee     client conn validateResponse / Receive* / error decoding      *)
(* Decides C01 (messages), C02 (errors), C05 (well-formed responses), C08   *)
(* (negotiation, threshold, flags) and C11 (headers / trailers).            *)
(*                                                                         *)
(* sc = [proto, kind, codec, csend, cmin, cacc, hpools, hmin,               *)
(*       reqhdr, req, reqsize, resphdr, resptrl, resp, respsize,            *)
(*       out : [kind : "ok"|"err"|"plain"|"wrapped", code, msg, ndet, meta, after]] *)
(* req / resp are sequences of [id, vlen]; *size the encoded sizes;         *)
(* header multimaps are sequences of [k, v] with v a sequence of values.    *)
(***************************************************************************)
EXTENDS Integers, Sequences, FiniteSets, TLC

VARIABLES sc, pc, wreq, neg, hsaw, wresp, csaw
vars == <<sc, pc, wreq, neg, hsaw, wresp, csaw>>

None == [none |-> TRUE]

Min2(a, b) == IF a < b THEN a ELSE b
Range(s) == {s[i] : i \in 1..Len(s)}
Ids(ms)  == [i \in 1..Len(ms) |-> IF ms[i].vlen = 0 THEN 0 ELSE ms[i].id]   \* all empty messages are the zero message
Take(s, n) == SubSeq(s, 1, Min2(n, Len(s)))

IsUnaryConnect(s) == s.proto = "connect" /\ s.kind = "unary"
Streamy(s) == s.kind \in {"server", "bidi"}          \* the handler API can send before failing

CT(s) == IF s.proto = "grpc" THEN "application/grpc+" \o s.codec
         ELSE IF s.proto = "grpcweb" THEN "application/grpc-web+" \o s.codec
         ELSE IF s.kind = "unary" THEN "application/" \o s.codec
         ELSE "application/connect+" \o s.codec

(* compression.go newReadOnlyCompressionPools: registration order reversed, first occurrence kept *)
RECURSIVE RevDedup(_, _, _)
RevDedup(names, i, acc) ==
  IF i = 0 THEN acc
  ELSE IF names[i] \in Range(acc) THEN RevDedup(names, i - 1, acc)
  ELSE RevDedup(names, i - 1, Append(acc, names[i]))
Names(extra) == LET all == <<"gzip">> \o extra IN RevDedup(all, Len(all), <<>>)
RECURSIVE Join(_)
Join(s) == IF Len(s) = 0 THEN "" ELSE IF Len(s) = 1 THEN s[1] ELSE s[1] \o "," \o Join(Tail(s))

Identity(a) == a \in {"", "none", "identity"}
(* envelope.go Write / connectUnaryMarshaler.Marshal: compress iff a pool is set and size >= minimum *)
Flag(alg, min, size) == IF ~Identity(alg) /\ size >= min THEN 1 ELSE 0

HSet(s) == {"gzip"} \cup Range(s.hpools)
RECURSIVE FirstIn(_, _)
FirstIn(prefs, have) == IF Len(prefs) = 0 THEN "identity"
                        ELSE IF prefs[1] \in have THEN prefs[1] ELSE FirstIn(Tail(prefs), have)

(* Connect's code -> HTTP status *)
HTTPStatusOf(c) ==
  CASE c = 1 -> 408 [] c = 2 -> 500 [] c = 3 -> 400 [] c = 4 -> 408 [] c = 5 -> 404 [] c = 6 -> 409
    [] c = 7 -> 403 [] c = 8 -> 429 [] c = 9 -> 412 [] c = 10 -> 409 [] c = 11 -> 400 [] c = 12 -> 404
    [] c = 13 -> 500 [] c = 14 -> 503 [] c = 15 -> 500 [] c = 16 -> 401 [] OTHER -> 500

(* ---------------- stages ---------------- *)
ReqFlags(s) == [i \in 1..Len(s.req) |-> Flag(s.csend, s.cmin, s.reqsize[i])]
ReqEnc(s)   == IF IsUnaryConnect(s) THEN (IF ReqFlags(s)[1] = 1 THEN s.csend ELSE "")
               ELSE IF Identity(s.csend) THEN "" ELSE s.csend

\* a foreign client may name the proto codec implicitly: "application/grpc", "application/grpc-web"
BareCT(s) == "rchoices" \in DOMAIN s /\ s.rchoices.BareCT /\ s.codec = "proto" /\ s.proto \in {"grpc", "grpcweb"}
ReqCT(s) == IF BareCT(s) THEN (IF s.proto = "grpc" THEN "application/grpc" ELSE "application/grpc-web") ELSE CT(s)
CStart == /\ pc = "c_start"
          /\ wreq' = [ctype |-> ReqCT(sc), enc |-> ReqEnc(sc), accept |-> Join(Names(sc.cacc)),
                      flags |-> ReqFlags(sc), ids |-> Ids(sc.req)]
          /\ pc' = "h_neg"
          /\ UNCHANGED <<sc, neg, hsaw, wresp, csaw>>

HNeg == /\ pc = "h_neg"
        /\ LET ok == Identity(wreq.enc) \/ wreq.enc \in HSet(sc)
               rc == IF ~Identity(wreq.enc) THEN wreq.enc ELSE FirstIn(Names(sc.cacc), HSet(sc))
           IN neg' = [ok |-> ok, rcomp |-> IF ok THEN rc ELSE "identity"]
        /\ pc' = IF neg'.ok THEN "h_run" ELSE "h_resp"
        /\ hsaw' = IF neg'.ok THEN hsaw ELSE [ran |-> 0, ids |-> <<>>]
        /\ UNCHANGED <<sc, wreq, wresp, csaw>>

HRun == /\ pc = "h_run"
        /\ hsaw' = [ran |-> 1, ids |-> wreq.ids]
        /\ pc' = "h_resp"
        /\ UNCHANGED <<sc, wreq, neg, wresp, csaw>>

Failing(s) == s.out.kind # "ok"
\* "ctxwrap": a coded error whose cause wraps a context error keeps its own code (error.go wrapIfContextError)
\* "badsend": the codec refuses to marshal the next response message: internal, before any byte of it is written
\* keys of the protocol itself in an error's metadata (a proxying handler passing on an error it received) are the
\* protocol's to set: the response still carries exactly one status -- the error's own
\* ... and so are the keys that describe the HTTP body of the response that carried the error (an error received from
\* another server comes with them): the body of THIS response is the library's, whatever the metadata says
ReservedKeys == {"Grpc-Status", "Grpc-Message", "Grpc-Status-Details-Bin", "Content-Length", "Content-Encoding", "Content-Type"}
UserMeta(m) == SelectSeq(m, LAMBDA h : h.k \notin ReservedKeys)
ErrOf(s) == IF s.out.kind = "badsend" THEN [code |-> 13, msg |-> "library", ndet |-> 0, meta |-> <<>>]
            ELSE IF s.out.kind = "plain" THEN [code |-> 2, msg |-> s.out.msg, ndet |-> 0, meta |-> <<>>]
            ELSE [code |-> s.out.code, msg |-> IF s.out.kind = "ctxwrap" THEN "ctx:" \o s.out.msg ELSE s.out.msg,
                  ndet |-> s.out.ndet, meta |-> UserMeta(s.out.meta)]
\* a client-streaming handler has one response; an error can still follow it when an interceptor around the handler
\* fails after the handler returned (out.after = 1): the response is on the wire, then the error
Late(s) == s.kind = "client" /\ Failing(s) /\ s.out.after = 1
NSent(s) == IF ~Failing(s) THEN Len(s.resp)
            ELSE IF Streamy(s) \/ Late(s) THEN Min2(s.out.after, Len(s.resp)) ELSE 0
\* header and trailer metadata the handler program manages to attach
HdrSet(s) == IF Failing(s) /\ ~Streamy(s) /\ ~Late(s) THEN <<>> ELSE s.resphdr
TrlSet(s) == IF Failing(s) /\ ~Streamy(s) /\ ~Late(s) THEN <<>> ELSE s.resptrl

(* where the protocol puts the final status *)
StatusAt(s, nsent) ==
  IF IsUnaryConnect(s) THEN "body"
  ELSE IF s.proto = "connect" THEN "endstream"
  ELSE IF s.proto = "grpc" THEN "trailer"
  ELSE IF nsent = 0 THEN "header" ELSE "frame"

HResp ==
  /\ pc = "h_resp"
  /\ IF ~neg.ok
     THEN wresp' = [status |-> IF IsUnaryConnect(sc) THEN 404 ELSE 200,
                    ctype |-> IF IsUnaryConnect(sc) THEN "application/json" ELSE wreq.ctype,
                    enc |-> "", flags |-> <<>>, ids |-> <<>>,
                    err |-> [code |-> 12, msg |-> "library", ndet |-> 0, meta |-> <<>>],
                    hdr |-> <<>>, trl |-> <<>>, at |-> StatusAt(sc, 0)]
     ELSE LET n == NSent(sc)
              fl == [i \in 1..n |-> Flag(neg.rcomp, sc.hmin, sc.respsize[i])]
              e  == IF Failing(sc) THEN ErrOf(sc) ELSE None
          IN wresp' = [status |-> IF IsUnaryConnect(sc) /\ Failing(sc) THEN HTTPStatusOf(e.code) ELSE 200,
                       ctype |-> IF IsUnaryConnect(sc) /\ Failing(sc) THEN "application/json" ELSE wreq.ctype,
                       enc |-> IF IsUnaryConnect(sc)
                               THEN (IF n = 1 /\ fl[1] = 1 THEN neg.rcomp ELSE "")
                               ELSE (IF Identity(neg.rcomp) THEN "" ELSE neg.rcomp),
                       flags |-> fl, ids |-> Take(Ids(sc.resp), n), err |-> e,
                       hdr |-> HdrSet(sc), trl |-> TrlSet(sc), at |-> StatusAt(sc, n)]
  /\ pc' = "c_see"
  /\ UNCHANGED <<sc, wreq, neg, hsaw, csaw>>

(* the client decodes the tokens: everything below is a function of wresp, not of the handler program *)
CSee ==
  /\ pc = "c_see"
  /\ csaw' = IF wresp.err = None
             THEN [ok |-> TRUE, ids |-> wresp.ids, code |-> 0, msg |-> "", ndet |-> 0,
                   hdr |-> wresp.hdr, trl |-> wresp.trl, meta |-> <<>>, carried |-> Len(wresp.ids)]
             ELSE [ok |-> FALSE, ids |-> IF Streamy(sc) THEN wresp.ids ELSE <<>>,
                   code |-> wresp.err.code, msg |-> wresp.err.msg, ndet |-> wresp.err.ndet,
                   hdr |-> wresp.hdr, trl |-> wresp.trl,
                   meta |-> wresp.hdr \o wresp.trl \o wresp.err.meta, carried |-> Len(wresp.ids)]
  /\ pc' = "done"
  /\ UNCHANGED <<sc, wreq, neg, hsaw, wresp>>

Next == CStart \/ HNeg \/ HRun \/ HResp \/ CSee

InitWith(s) == /\ sc = s /\ pc = "c_start" /\ wreq = None /\ neg = None /\ hsaw = None
               /\ wresp = None /\ csaw = None
ResetTo(s) == /\ sc' = s /\ pc' = "c_start" /\ wreq' = None /\ neg' = None /\ hsaw' = None
              /\ wresp' = None /\ csaw' = None

(* ---------------- properties ---------------- *)
IsPrefix(a, b) == Len(a) <= Len(b) /\ \A i \in 1..Len(a) : a[i] = b[i]
Done == pc = "done"

\* C01: the handler gets exactly what the client sent; the client gets exactly what the handler sent
ExactDelivery == Done /\ neg.ok =>
  /\ hsaw.ids = Ids(sc.req)
  /\ (~Failing(sc) => csaw.ok /\ csaw.ids = Ids(sc.resp))
  /\ IsPrefix(csaw.ids, Ids(sc.resp))

\* C02: an error is never a success; code, message, details intact; unary Connect status is not 2xx
ErrorNeverSuccess == Done /\ neg.ok /\ Failing(sc) =>
  /\ ~csaw.ok
  /\ csaw.code = ErrOf(sc).code /\ csaw.code \in 1..16
  /\ csaw.msg = ErrOf(sc).msg /\ csaw.ndet = ErrOf(sc).ndet
  /\ (IsUnaryConnect(sc) => wresp.status \notin 200..299)
  /\ \A i \in 1..Len(ErrOf(sc).meta) : \E j \in 1..Len(csaw.meta) : csaw.meta[j] = ErrOf(sc).meta[i]

\* C05: exactly one place carries the final status, gRPC family is always HTTP 200, flags need a named encoding
WellFormed == Done =>
  /\ (sc.proto \in {"grpc", "grpcweb"} => wresp.status = 200)
  /\ (sc.proto = "connect" /\ ~IsUnaryConnect(sc) => wresp.status = 200)
  /\ (wresp.at = "header" => Len(wresp.ids) = 0)
  /\ (\E i \in 1..Len(wresp.flags) : wresp.flags[i] = 1) => ~Identity(wresp.enc)
  /\ (IsUnaryConnect(sc) /\ wresp.err # None => wresp.ctype = "application/json" /\ wresp.status >= 400)
  /\ (wresp.err = None \/ ~IsUnaryConnect(sc) => wresp.ctype = wreq.ctype)

\* C08: the response algorithm is one the handler has and the client used or advertised; the most preferred
NegotiationSound == Done =>
  /\ (neg.ok => /\ Identity(neg.rcomp) \/ neg.rcomp \in HSet(sc)
                /\ Identity(neg.rcomp) \/ neg.rcomp = wreq.enc \/ neg.rcomp \in Range(Names(sc.cacc))
                /\ (Identity(wreq.enc) =>
                      \A i \in 1..Len(Names(sc.cacc)) :
                         Names(sc.cacc)[i] \in HSet(sc) =>
                           \E j \in 1..i : Names(sc.cacc)[j] = neg.rcomp))
  /\ (~neg.ok => hsaw.ran = 0 /\ csaw.code = 12 /\ ~csaw.ok)
  /\ \A i \in 1..Len(wresp.flags) : wresp.flags[i] = 1 <=> (~Identity(neg.rcomp) /\ sc.respsize[i] >= sc.hmin)

\* C11: on success with at least one message, headers under headers and trailers under trailers
MetaVisible == Done /\ neg.ok =>
  /\ (~Failing(sc) => csaw.hdr = sc.resphdr /\ csaw.trl = sc.resptrl)
  /\ (Failing(sc) /\ Streamy(sc) => \A i \in 1..Len(sc.resphdr) : \E j \in 1..Len(csaw.meta) : csaw.meta[j] = sc.resphdr[i])
  /\ (Failing(sc) /\ Streamy(sc) => \A i \in 1..Len(sc.resptrl) : \E j \in 1..Len(csaw.meta) : csaw.meta[j] = sc.resptrl[i])
=============================================================================
