-------------------------------- MODULE Resp --------------------------------
(***************************************************************************)
(* What a client makes of an arbitrary HTTP response (C06): the head layer  *)
(* (status, content type, encoding header, trailers-only gRPC status,       *)
(* Connect error JSON) decides first -- protocol_connect.go /               *)
(* protocol_grpc.go validateResponse --, then the body layer.               *)
(*                                                                         *)
(* sc = [proto, kind : "unary"|"server"|"client"|"bidi",                    *)
(*       status : Nat, ctype : "match"|"other"|"garbage"|"absent",          *)
(*       enc : "none"|"gzip"|"unknown",                                     *)
(*       hstatus, hdetails : class of grpc-status / details-bin in HEADERS, *)
(*       tstatus, tdetails : the same in the terminator (HTTP trailers,     *)
(*                           gRPC-Web trailer frame),                       *)
(*       cerr : class of the Connect error JSON (unary non-200 body or      *)
(*              end-of-stream envelope),                                    *)
(*       body : "good"|"nomsg"|"noterm"|"empty"|"garbage"|"twomsgs",        *)
(*       casing : "canon"|"lower"|"upper"|"both" (metadata key in the terminator)] *)
(* Outcome: [ok, code, n (messages yielded), lookup ("hit"|"miss"|"na")]    *)
(***************************************************************************)
EXTENDS Integers, Sequences, FiniteSets, TLC

VARIABLES sc, pc, verdict
vars == <<sc, pc, verdict>>

GrpcFamily(s) == s.proto \in {"grpc", "grpcweb"}
UnaryConnect(s) == s.proto = "connect" /\ s.kind \in {"unary"}
UnaryShaped(s) == s.kind \in {"unary", "client"}

ConnectHTTPToCode(h) ==
  CASE h = 400 -> 3 [] h = 401 -> 16 [] h = 403 -> 7 [] h = 404 -> 12 [] h = 408 -> 4 [] h = 412 -> 9
    [] h = 413 -> 8 [] h = 429 -> 14 [] h = 431 -> 8 [] h \in {502, 503, 504} -> 14 [] OTHER -> 2
GrpcHTTPToCode(h) ==
  CASE h = 400 -> 13 [] h = 401 -> 16 [] h = 403 -> 7 [] h = 404 -> 12 [] h = 429 -> 14
    [] h \in {502, 503, 504} -> 14 [] OTHER -> 2
HTTPToCode(s) == IF GrpcFamily(s) THEN GrpcHTTPToCode(s.status) ELSE ConnectHTTPToCode(s.status)

\* a verdict: may it succeed, which exact codes are allowed, or any non-zero code (any = TRUE)
Exact(c) == [ok |-> {FALSE}, codes |-> {c}, any |-> FALSE]
AnyErr   == [ok |-> {FALSE}, codes |-> {}, any |-> TRUE]
Loose    == [ok |-> {TRUE, FALSE}, codes |-> {}, any |-> TRUE]     \* success or any coded non-OK error
Pass     == [ok |-> {}, codes |-> {}, any |-> FALSE]
Success  == [ok |-> {TRUE}, codes |-> {}, any |-> FALSE]
Allows(v, ok, code) == IF ok THEN TRUE \in v.ok
                       ELSE FALSE \in v.ok /\ (code \in v.codes \/ (v.any /\ code >= 1))

(* a gRPC status block (headers, HTTP trailers or trailer frame) with status class st and details class dt *)
StatusVerdict(st, dt) ==
  IF st = "5" THEN (IF dt \in {"absent", "valid"} THEN Exact(5) ELSE AnyErr)
  ELSE IF st \in {"17", "abc", "neg", "huge", "wrap", "wrap5"} THEN AnyErr
  ELSE IF st = "00" THEN Loose           \* numerically zero: OK, or a non-OK error, never "error with code 0"
  ELSE Pass                              \* "0" or absent

(* stage 1: the head *)
HeadV(s) ==
  IF s.status # 200 THEN
     \* (an encoding the client does not know makes the body unreadable: no valid protocol-level error, the status decides)
     IF s.enc = "unknown" THEN Exact(HTTPToCode(s))
     ELSE IF UnaryConnect(s) /\ s.cerr = "valid" THEN Exact(5)
     ELSE IF UnaryConnect(s) /\ s.cerr = "code99" THEN [ok |-> {FALSE}, codes |-> {99, HTTPToCode(s)}, any |-> FALSE]
     ELSE Exact(HTTPToCode(s))
  ELSE IF s.enc = "unknown" THEN AnyErr
  ELSE IF GrpcFamily(s) /\ s.hstatus \notin {"absent", "0"} THEN StatusVerdict(s.hstatus, s.hdetails)
  ELSE IF GrpcFamily(s) /\ s.hstatus = "0" THEN Loose
  ELSE Pass

(* stage 2: the terminator found after the messages *)
TermVerdict(s) ==
  IF s.proto = "connect" THEN
     (IF s.cerr = "valid" THEN Exact(5)
      ELSE IF s.cerr \in {"nocode", "code_0"} THEN Loose      \* an "error" without a usable code
      ELSE IF s.cerr = "code99" THEN [ok |-> {FALSE}, codes |-> {99}, any |-> FALSE]
      ELSE IF s.cerr = "notjson" THEN AnyErr
      ELSE Pass)
  ELSE IF s.tstatus = "absent" THEN AnyErr
  ELSE StatusVerdict(s.tstatus, s.tdetails)

(* messages the body carries *)
Yield(s) == IF s.body \in {"good", "noterm"} THEN 1 ELSE IF s.body = "twomsgs" THEN 2 ELSE 0
\* unary-shaped APIs need exactly one message

(* stage 3: the body *)
BodyV(s) ==
  IF UnaryConnect(s) THEN
     (IF s.body \in {"good", "twomsgs", "noterm", "nomsg"} THEN Success
      ELSE IF s.body = "empty" THEN Loose    \* an empty body is the zero message
      ELSE AnyErr)
  ELSE IF s.body \in {"garbage", "flood"} THEN AnyErr
  ELSE IF s.body \in {"noterm", "empty"} /\ s.proto # "grpc" THEN AnyErr
  ELSE IF s.body \in {"noterm", "empty"} /\ UnaryShaped(s) /\ s.body = "empty" /\ TermVerdict(s) = Pass THEN AnyErr
  ELSE LET t == TermVerdict(s) IN
       \* unary-shaped APIs wrap an error that follows a message (receiveUnaryResponse): any code
       IF t # Pass /\ UnaryShaped(s) /\ Yield(s) >= 1 /\ FALSE \in t.ok /\ TRUE \notin t.ok THEN AnyErr
       ELSE IF t # Pass THEN t
       ELSE IF UnaryShaped(s) /\ Yield(s) # 1 THEN AnyErr
       ELSE Success

Verdict(s) == IF HeadV(s) # Pass THEN HeadV(s) ELSE BodyV(s)



InitWith(s) == sc = s /\ pc = "start" /\ verdict = Pass
ResetTo(s)  == sc' = s /\ pc' = "start" /\ verdict' = Pass
Decide == pc = "start" /\ verdict' = Verdict(sc) /\ pc' = "done" /\ UNCHANGED sc
Next == Decide

(* the metadata entry carried by the terminator must be found under its canonical key *)
LookupRequired(s, ok) ==
  /\ ~UnaryConnect(s) /\ HeadV(s) = Pass /\ (s.body \in {"good", "nomsg", "twomsgs"} \/ s.proto = "grpc")
  /\ \/ ok
     \/ ~ok /\ TermVerdict(s) = Exact(5) /\ BodyV(s) = Exact(5)

(* C06: never an error with the zero code; a non-200 response is never a success *)
NeverZero == pc = "done" => 0 \notin verdict.codes
Non200Fails == pc = "done" /\ sc.status # 200 => verdict.ok = {FALSE}
Decided == pc = "done" => verdict # Pass
=============================================================================
