------------------------------ MODULE TraceCall ------------------------------
(***************************************************************************)
(* Trace specification for Call (C14, C15).  The runner logs, under one     *)
(* recorder mutex, the start and the return of every client operation and   *)
(* the instant the context is cancelled; everything else -- the library's   *)
(* internal steps, the request goroutine, transport, server and handler --  *)
(* is unlogged and inferred by TLC as silent steps.  Because of the silent  *)
(* steps the search branches; traces are concatenated (every trace starts   *)
(* with a reset event, which collapses all branches) and accepted when the  *)
(* high-water mark reaches the end of the file.                             *)
(* Events: reset{sc} call{op} ret{op,res,code} api{op,ok,code} cancel{how}   *)
(*         hexit{saweof}                                                    *)
(*         quiesce{leaked,closed,closeresp}                                 *)
(***************************************************************************)
EXTENDS Call, Json, IOUtils

Trace == ndJsonDeserialize(IOEnv.TRACE_FILE)
VARIABLE l
tvars == <<vars, l>>
Ev(e) == l <= Len(Trace) /\ Trace[l].ev = e
Cur == Trace[l]
Adv == l' = l + 1
Stay == l' = l

Blank == [msend |-> 0, mrecv |-> 0, hrecv |-> 0, hsend |-> 0, hdrain |-> FALSE, hret |-> "ok", watch |-> TRUE, hflood |-> FALSE]
TraceInit == InitWith(Blank) /\ l = 1
TReset == Ev("reset") /\ Adv /\ ResetTo(Cur.sc)

TCall == /\ Ev("call") /\ Adv
         /\ \/ Cur.op = "send" /\ SendBegin
            \/ Cur.op = "closereq" /\ CloseReqBegin
            \/ Cur.op = "recv" /\ RecvBegin
            \/ Cur.op = "closeresp" /\ CloseRespBegin
Returning == W2 \/ W3ok \/ W3eof \/ WC \/ R2 \/ R5 \/ C1
\* an operation returned: the model's own return step must produce the logged result
CtxCode == IF ctx = "canceled" THEN 1 ELSE 4
TRet == /\ Ev("ret") /\ Adv /\ Returning
        /\ Len(log') = Len(log) + 1
        /\ log'[Len(log')][1] = Cur.op
        /\ \/ /\ Cur.op \in {"closereq", "closeresp"}           \* closing may report a late transport error --
              /\ (ctx # "live" /\ Cur.res = "err" => Cur.code = CtxCode)   \* after the context ended: with its code (C15)
           \/ /\ log'[Len(log')][2] = Cur.res
              /\ (Cur.res = "ctx" => Cur.code = CtxCode)          \* C15: canceled for cancel(), deadline_exceeded for expiry
\* the library's own wrappers: CallServerStream (Send + CloseRequest) hands back a stream also when the Send found
\* the stream already closed by the server (io.EOF: the outcome is for Receive to report); CloseAndReceive succeeds
\* exactly when the response side yielded one message and then the clean end
ResultsOf(op) == SelectSeq(log, LAMBDA e : e[1] = op)
TApi == /\ Ev("api") /\ Adv /\ UNCHANGED vars
        /\ spc \in {"idle", "sdone"} /\ rpc \in {"idle", "rdone"}
        /\ LET snd == ResultsOf("send")
               rcv == ResultsOf("recv") IN
           /\ (Cur.op = "css" => (Cur.ok <=> (Len(snd) = 1 /\ snd[1][2] \in {"ok", "eof"})))
           /\ (Cur.op = "car" => (Cur.ok <=> (Len(rcv) = 2 /\ rcv[1][2] = "msg" /\ rcv[2][2] = "eof")))
           \* CallUnary: the request went out (or met a finished server) and exactly one message came back
           /\ (Cur.op = "cu" => (Cur.ok <=> (/\ Len(snd) = 1 /\ snd[1][2] \in {"ok", "eof"}
                                              /\ Len(rcv) = 2 /\ rcv[1][2] = "msg" /\ rcv[2][2] = "eof")))
           /\ (Cur.op = "cu" /\ Len(snd) = 1 /\ snd[1][2] = "ctx" => Cur.code = CtxCode)
           /\ (Cur.op = "cu" /\ Len(rcv) >= 1 /\ rcv[Len(rcv)][2] = "ctx" => Cur.code = CtxCode)
           \* C15: a wrapper that fails because of the context reports the context's code
           /\ (Cur.op = "car" /\ Len(rcv) = 1 /\ rcv[1][2] = "ctx" => Cur.code = CtxCode)
           /\ (Cur.op = "css" /\ Len(snd) = 1 /\ snd[1][2] = "ctx" => Cur.code = CtxCode)
TCancel == Ev("cancel") /\ Adv /\ CancelAs(Cur.how)
\* the handler returned: whether it saw the end of the request stream
THexit == /\ Ev("hexit") /\ Adv /\ hpc = "done"
          /\ (ctx = "live" => Cur.saweof = hsawEOF)
          /\ UNCHANGED vars
\* after the program: nothing of the library is left running, the response body was closed
TQuiesce == /\ Ev("quiesce") /\ Adv
            /\ Cur.leaked = 0
            /\ (Cur.closeresp /\ resp = "ok" => Cur.closed >= 1)
            /\ UNCHANGED vars
Silent == /\ Stay
          /\ \/ (Returning /\ log' = log)
             \/ W1 \/ R1 \/ QDoOK \/ QDoErr \/ QVal \/ QReady \/ Env

TraceNext == TReset \/ TCall \/ TRet \/ TApi \/ TCancel \/ THexit \/ TQuiesce \/ Silent
TraceSpec == TraceInit /\ [][TraceNext]_tvars
HWM == TLCSet(1, IF TLCGet(1) < l THEN l ELSE TLCGet(1))
TraceAccepted == IF TLCGet(1) = Len(Trace) + 1 THEN TRUE
                 ELSE Print(<<"TRACE_REJECTED_AT", TLCGet(1)>>, TRUE)
ASSUME TLCSet(1, 0)
tview == <<view, l>>
=============================================================================
