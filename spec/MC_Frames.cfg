CONSTANT Scenarios <- NoScenarios
CONSTANT ZeroShortcut <- MCZeroShortcut
SPECIFICATION MCSpec
INVARIANTS SegIndep OnlyTerminatorIsSuccess HandlerCleanEnd PrefixOfSent LimitExact NoSpuriousLimit
CHECK_DEADLOCK FALSE
