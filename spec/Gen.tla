--------------------------------- MODULE Gen ---------------------------------
(***************************************************************************)
(* What protoc-gen-connect-go must emit for a file descriptor (C17): for    *)
(* every method the canonical procedure path                                *)
(* "/<fully-qualified service>/<method>" -- used three times: mux.Handle,   *)
(* the handler constructor's Spec label, the client constructor's URL --,   *)
(* the constructor matching the streaming kind, and the mount prefix        *)
(* "/<fully-qualified service>/".                                           *)
(*                                                                         *)
(* sc = [pkg : STRING ("" = no package), services : Seq([name,              *)
(*        methods : Seq([name, kind])]), ...generation options]             *)
(***************************************************************************)
EXTENDS Integers, Sequences, TLC

VARIABLES sc, pc, routes
vars == <<sc, pc, routes>>

FQ(d, s) == IF d.pkg = "" THEN s.name ELSE d.pkg \o "." \o s.name
Path(d, s, m) == "/" \o FQ(d, s) \o "/" \o m.name
Prefix(d, s) == "/" \o FQ(d, s) \o "/"
HandlerCtor(k) == CASE k = "unary" -> "NewUnaryHandler" [] k = "client" -> "NewClientStreamHandler"
                    [] k = "server" -> "NewServerStreamHandler" [] k = "bidi" -> "NewBidiStreamHandler"
ClientCall(k) == CASE k = "unary" -> "CallUnary" [] k = "client" -> "CallClientStream"
                   [] k = "server" -> "CallServerStream" [] k = "bidi" -> "CallBidiStream"

\* one entry per service: its mount prefix and, per method in order, the three paths and the constructor
RoutesOf(d) == [i \in 1..Len(d.services) |->
                  [prefix |-> Prefix(d, d.services[i]),
                   methods |-> [j \in 1..Len(d.services[i].methods) |->
                                  LET m == d.services[i].methods[j] IN
                                  [handle |-> Path(d, d.services[i], m), spec |-> Path(d, d.services[i], m),
                                   url |-> Path(d, d.services[i], m), ctor |-> HandlerCtor(m.kind),
                                   call |-> ClientCall(m.kind)]]]]

InitWith(d) == sc = d /\ pc = "start" /\ routes = <<>>
ResetTo(d)  == sc' = d /\ pc' = "start" /\ routes' = <<>>
Generate == pc = "start" /\ routes' = RoutesOf(sc) /\ pc' = "done" /\ UNCHANGED sc
Next == Generate

\* every procedure path is unique within a file and starts with its service's mount prefix
Done == pc = "done"
PathsDistinct == Done => \A i \in 1..Len(routes) : \A j, k \in 1..Len(routes[i].methods) :
                           j # k /\ sc.services[i].methods[j].name # sc.services[i].methods[k].name
                             => routes[i].methods[j].handle # routes[i].methods[k].handle
OnePathPerMethod == Done => \A i \in 1..Len(routes) : \A j \in 1..Len(routes[i].methods) :
                      LET r == routes[i].methods[j] IN r.handle = r.spec /\ r.spec = r.url
=============================================================================
