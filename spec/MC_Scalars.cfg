SPECIFICATION MCSpec
INVARIANTS PctRoundTrip StatusIsError TimeoutNeverExtended
CHECK_DEADLOCK FALSE
