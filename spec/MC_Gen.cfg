SPECIFICATION MCSpec
INVARIANTS PathsDistinct OnePathPerMethod
CHECK_DEADLOCK FALSE
