----------------------------- MODULE Gen_CallK -----------------------------
(* Client programs of the non-bidi streaming kinds for the call-level checks (C14, C15). *)
EXTENDS Integers, Sequences, TLC, Json
CONSTANTS MaxSend, MaxRecv, MaxAfter

(* ---- the other streaming kinds: programs at the level of the public API ---------------------------------- *)
(* server streaming: CallServerStream ("css" = Send + CloseRequest inside the library), Receive*, Close       *)
(* client streaming: Send*, CloseAndReceive ("car" = CloseRequest + Receive (+ Receive) + CloseResponse)       *)
VARIABLES h, kind, kprog, kn, kdone, kcanc, kafter
kv == <<kind, h, kprog, kn, kdone, kcanc, kafter>>
KHandlers == { [hrecv |-> a, hsend |-> b, hdrain |-> d, hret |-> r] : a \in 0..2, b \in 0..2, d \in BOOLEAN, r \in {"ok", "err", "stall"} }
\* a server-streaming handler that keeps sending until a Send fails (the client has gone away)
KFlood == [hrecv |-> 1, hsend |-> 1, hdrain |-> FALSE, hret |-> "ok", hflood |-> TRUE]
KInit == /\ kind \in {"server", "client", "unary"} /\ h \in (KHandlers \cup {KFlood}) /\ kprog = <<>> /\ kn = 0 /\ kdone = FALSE /\ kcanc = "no" /\ kafter = 0
         \* the framework reads the single request -- unless an interceptor rejects the call first (hrecv = 0)
         /\ (kind = "server" => ~h.hdrain /\ (h.hrecv = 1 \/ (h.hrecv = 0 /\ h.hsend = 0 /\ h.hret = "err")))
         /\ (kind = "client" => h.hsend = 1 /\ h # KFlood)            \* one response message
         \* unary: CallUnary ("cu" = Send + CloseRequest + Receive + Receive + CloseResponse inside the library); the
         \* connection-level events come from the verif hook VerifUnaryConnHook
         /\ (kind = "unary" => h.hrecv = 1 /\ h.hsend = 1 /\ ~h.hdrain /\ h # KFlood)
KBudget == kcanc = "no" \/ kafter < MaxAfter
KOp(o) == kprog' = Append(kprog, [op |-> o]) /\ kafter' = IF kcanc = "no" THEN kafter ELSE kafter + 1
\* a stalling handler only returns once the context ended: operations that wait for it need a cancellation first
KWaits == h.hret = "stall" => kcanc # "no"
Opened == \E i \in 1..Len(kprog) : kprog[i].op = "css"
KStep ==
  \/ /\ kind = "server" /\ ~Opened /\ KBudget /\ KOp("css") /\ UNCHANGED <<kind, h, kn, kdone, kcanc>>
  \/ /\ kind = "server" /\ Opened /\ ~kdone /\ kn < MaxRecv /\ KBudget
     /\ (kn >= h.hsend => KWaits) /\ KOp("recv") /\ kn' = kn + 1 /\ UNCHANGED <<kind, h, kdone, kcanc>>
  \/ /\ kind = "server" /\ Opened /\ ~kdone /\ KBudget /\ KWaits /\ KOp("closeresp") /\ kdone' = TRUE /\ UNCHANGED <<kind, h, kn, kcanc>>
  \/ /\ kind = "client" /\ ~kdone /\ kn < MaxSend /\ KBudget /\ KOp("send") /\ kn' = kn + 1 /\ UNCHANGED <<kind, h, kdone, kcanc>>
  \/ /\ kind = "client" /\ ~kdone /\ KBudget /\ KWaits /\ KOp("car") /\ kdone' = TRUE /\ UNCHANGED <<kind, h, kn, kcanc>>
  \/ /\ kind = "unary" /\ ~kdone /\ KBudget /\ KWaits /\ KOp("cu") /\ kdone' = TRUE /\ UNCHANGED <<kind, h, kn, kcanc>>
  \/ /\ kcanc = "no" /\ ~kdone
     /\ \E how \in {"canceled", "expired"}, mode \in {"between", "during"} :
          kprog' = Append(kprog, [op |-> "cancel", how |-> how, mode |-> mode]) /\ kcanc' = how
     /\ UNCHANGED <<kind, h, kn, kdone, kafter>>
KSpec == KInit /\ [][KStep]_kv
KComplete == kdone \/ (kcanc # "no" /\ kafter >= 1)
KEmit == KComplete => PrintT(ToJson([kind |-> kind, h |-> h, prog |-> kprog, msend |-> IF kind \in {"server", "unary"} THEN 1 ELSE kn, mrecv |-> 3]))
=============================================================================
