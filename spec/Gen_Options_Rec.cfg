SPECIFICATION GenRecSpec
INVARIANT Emit
CHECK_DEADLOCK FALSE
