------------------------------- MODULE MC_Call -------------------------------
(* Design check of Call: every client program within the bounds against every   *)
(* handler program, every cancellation instant.                                  *)
EXTENDS Call, Json
Scn(ms, mr, hr_, hs_, dr, rt, w) == [msend |-> ms, mrecv |-> mr, hrecv |-> hr_, hsend |-> hs_, hdrain |-> dr, hret |-> rt, watch |-> w]
MCInit == \E ms \in 0..2, mr \in 1..3, hr_ \in 0..2, hs_ \in 0..2, dr \in BOOLEAN, rt \in {"ok", "err"} :
            InitWith(Scn(ms, mr, hr_, hs_, dr, rt, TRUE))
MCInitQ == \E ms \in 0..1, mr \in 1..2, hr_ \in 0..1, hs_ \in 0..1, dr \in BOOLEAN, rt \in {"ok", "err"} :
             InitWith(Scn(ms, mr, hr_, hs_, dr, rt, TRUE))
MCInitNoWatch == InitWith(Scn(1, 2, 1, 1, TRUE, "ok", FALSE))
Fairness == /\ WF_vars(W1) /\ WF_vars(W2) /\ WF_vars(W3ok) /\ WF_vars(W3eof) /\ WF_vars(WC)
            /\ WF_vars(R1) /\ WF_vars(R2) /\ WF_vars(R5) /\ WF_vars(C1)
            /\ WF_vars(QDoOK) /\ WF_vars(QDoErr) /\ WF_vars(QVal) /\ WF_vars(QReady)
            /\ WF_vars(Env)
            /\ WF_vars(ctx = "live" /\ CloseReqBegin) /\ WF_vars(CloseRespBegin)
MCSpec == MCInit /\ [][Next]_vars /\ Fairness
MCSpecQ == MCInitQ /\ [][Next]_vars /\ Fairness
MCSpecNoWatch == MCInitNoWatch /\ [][Next]_vars /\ Fairness
=============================================================================
