CONSTANT Scenarios <- NoScenarios
CONSTANT ZeroShortcut <- MCZeroShortcut
SPECIFICATION GenDSpec
INVARIANT EmitA
CHECK_DEADLOCK FALSE
