--------------------------- MODULE TraceSendSide ---------------------------
(* Trace specification for SendSide (C04 write faults, C15 "while sending", C14 "Sends fail instead of blocking"). *)
(* Events: reset{sc}  ret{op:"send",res,code}*  final{ok,code}.  The transport's byte-level steps are not logged: *)
(* the results are functions of the scenario (SendSide's oracle, proved equal to the state machine by TLC).       *)
EXTENDS SendSide, TraceBase
Blank == [proto |-> "connect", kind |-> "bidi", sizes |-> <<>>, cut |-> 0, fault |-> "err", poison |-> 0]
TraceInit == l = 1 /\ failed = FALSE /\ InitWith(Blank)
TReset == Ev("reset") /\ ResetTo(Cur.sc) /\ Consume /\ failed' = FALSE

\* a Send returned: the i-th result must be one the oracle allows
Res == IF Handler(sc) THEN (IF Cur.res = "ok" THEN "ok" ELSE "fail")
       ELSE IF Cur.res = "other:13" THEN "internal" ELSE Cur.res
TSend == /\ Ev("ret") /\ Cur.op = "send"
         /\ si <= Len(sc.sizes)
         /\ Res \in SendOutcomes(sc, si)
         /\ (Res = "ctx" => Cur.code = CtxCode(sc))
         /\ (Res = "fail" => Cur.code \in 1..16)
         /\ results' = Append(results, Res) /\ si' = si + 1
         /\ UNCHANGED <<sc, consumed, struck, part, final>>
\* other connection-level operations (CloseRequest, Receive, CloseResponse) are judged through the final result
TOther == /\ Ev("ret") /\ Cur.op # "send" /\ UNCHANGED vars
TCallEv == /\ Ev("call") /\ UNCHANGED vars
TFinal == /\ Ev("final") /\ final = 0
          /\ IF Cur.ok THEN 0 \in FinalCodes(sc) ELSE Cur.code \in (FinalCodes(sc) \ {0})
          /\ final' = IF Cur.ok THEN -1 ELSE Cur.code
          /\ UNCHANGED <<sc, consumed, struck, si, part, results>>

Normal == TReset \/ ((TSend \/ TOther \/ TCallEv \/ TFinal) /\ Consume /\ UNCHANGED failed)
TraceNext == \/ (~failed /\ Normal)
             \/ (~failed /\ ~ENABLED Normal /\ Reject /\ UNCHANGED vars)
             \/ (SkipRest /\ UNCHANGED vars)
             \/ (failed /\ TReset)
TraceSpec == TraceInit /\ [][TraceNext]_<<vars, l, failed>>
=============================================================================
