------------------------------- MODULE Frames -------------------------------
(***************************************************************************)
(* Receiving one enveloped body (envelope.go, protocol_connect.go,         *)
(* protocol_grpc.go): a byte stream that the transport hands over in       *)
(* arbitrary pieces, may cut short and may fail, is turned into messages    *)
(* and a final result by the envelope reader and the protocol-specific      *)
(* terminator rules.  The writer half (flag / threshold rule) is at the end.*)
(*                                                                         *)
(* The scenario `sc` is a VARIABLE fixed by Init (design check: one run    *)
(* covers the whole scenario set) or re-bound by ResetTo (trace check:     *)
(* thousands of recorded traces are judged in one TLC run).                *)
(*                                                                         *)
(* sc = [proto  : "connect" | "grpc" | "grpcweb",                          *)
(*       side   : "client" | "handler",                                    *)
(*       shape  : "stream" | "unary",                                      *)
(*       raw    : BOOLEAN   \* unary Connect: the body is the message      *)
(*       limit  : Nat       \* read limit, 0 = none                        *)
(*       enc    : "none" | "gzip" ...   \* encoding named in the header    *)
(*       frames : Seq([flag, len, ilen, body, id, corrupt]),               *)
(*       cut    : Nat       \* bytes that arrive before the tail           *)
(*       tail   : "eof" | "ueof" | "err" | "ctxc" | "ctxd",                *)
(*                \* ctxc / ctxd: the call's context is cancelled / expires *)
(*                \* there and the body read fails with its error (C15)     *)
(*       trailers : "none" | "ok" | "err"]   \* gRPC HTTP trailers         *)
(*                                                                         *)
(* frame.body: "msg" (decodes to message `id`), "zero" (len 0), "bad"      *)
(* (does not decode), "endok" / "enderr" / "endbad" (terminator payloads)  *)
(***************************************************************************)
EXTENDS Integers, Sequences, FiniteSets, TLC

CONSTANT Scenarios, ZeroShortcut   \* ZeroShortcut = TRUE models the pinned tree's defect (DESIGN 8.1)

VARIABLES sc,         \* the scenario
          delivered,  \* bytes the transport has handed to the reader so far
          eof,        \* "no" or the tail the transport has signalled
          fi,         \* index of the frame the reader is working on
          out,        \* ids of the messages yielded to the application, in order
          res,        \* "open" or the final result class
          hold        \* content of the application's (possibly reused) message holder

vars == <<sc, delivered, eof, fi, out, res, hold>>

Min(a, b) == IF a < b THEN a ELSE b
Pre(s) == IF s.raw THEN 0 ELSE 5
RECURSIVE Sum(_, _, _)
Sum(s, fs, i) == IF i = 0 THEN 0 ELSE Pre(s) + fs[i].len + Sum(s, fs, i - 1)
WireLen(s)  == Sum(s, s.frames, Len(s.frames))
Avail(s)    == Min(s.cut, WireLen(s))
Start(s, i) == Sum(s, s.frames, i - 1)
End(s, i)   == Sum(s, s.frames, i)

Compressed(flag) == flag % 2 = 1
Special(flag)    == flag \notin {0, 1}
IsEnd(p, flag)   == \/ p = "connect" /\ (flag \div 2) % 2 = 1
                    \/ p = "grpcweb" /\ flag >= 128

(* What one complete frame means to the reader. *)
\* The read limit applies to every envelope, terminator frames (end-of-stream envelope, trailer frame) included:
\* they are peer-controlled data that the receiver has to buffer whole, so the property's buffering clause ("a peer
\* cannot make the receiver buffer substantially more than N bytes") needs them limited.  (An earlier version of this
\* module exempted them and reported the library's behaviour as a finding: a false alarm, DESIGN 9.)
Limited(s, f) == s.limit > 0
FrameClass(s, f) ==
  IF Limited(s, f) /\ f.len > s.limit THEN "limit"
  ELSE IF f.len = 0 /\ ~Special(f.flag) THEN "zero"
  ELSE IF Compressed(f.flag) /\ f.len > 0 /\ s.enc = "none" THEN "nocomp"
  ELSE IF Compressed(f.flag) /\ f.len > 0 /\ f.corrupt THEN "inflate"
  ELSE IF Compressed(f.flag) /\ Limited(s, f) /\ f.ilen > s.limit THEN "limit"
  ELSE IF Special(f.flag) THEN
       IF s.side = "handler" THEN "special_request"
       ELSE IF ~IsEnd(s.proto, f.flag) THEN "flags"
       ELSE IF f.body = "endok" THEN "end"
       ELSE IF f.body = "enderr" THEN "server_err"
       ELSE "endbad"
  ELSE IF f.body = "msg" THEN "msg"
  ELSE IF f.body = "zero" THEN "zero"
  ELSE "decode"

NonOK(s) == "status" \in DOMAIN s /\ s.status # 200
\* HTTPClient.Do itself failed: there is no response at all, whatever error it returned (also one that wraps io.EOF)
DoErr(s) == "doerr" \in DOMAIN s /\ s.doerr
(* How the stream ends when it stops inside / before frame i with `partial` bytes of it. *)
CtxTails == {"ctxc", "ctxd"}
TailClass(s, partial) ==
  IF DoErr(s) THEN "transport"
  ELSE IF s.tail \in CtxTails THEN s.tail
  ELSE IF s.tail # "eof" THEN "transport"
  ELSE IF partial > 0 THEN "truncated"
  ELSE IF s.side = "handler" THEN "end"
  ELSE IF s.proto = "grpc"
       THEN (IF s.trailers = "ok" THEN "end" ELSE IF s.trailers = "err" THEN "server_err" ELSE "noterm")
       ELSE "noterm"

(* gRPC client: once the body has been read to its clean end, an error the server put in the HTTP
   trailers takes precedence over an error the client raised locally (protocol_grpc.go Receive) *)
Final(s, c) == IF c # "end" /\ s.proto = "grpc" /\ s.side = "client" /\ s.trailers = "err"
               THEN {c, "server_err"} ELSE {c}

(* -------- the whole-wire oracle: never mentions reads (C03) -------- *)
EndClasses(s, i) ==
  LET partial == Avail(s) - Start(s, i)
  IN  (IF i <= Len(s.frames) /\ partial >= 5 /\ Limited(s, s.frames[i]) /\ s.frames[i].len > s.limit
       THEN Final(s, "limit") ELSE {}) \cup {TailClass(s, partial)}

RECURSIVE Scan(_, _, _)
Scan(s, i, acc) ==
  IF i > Len(s.frames) \/ End(s, i) > Avail(s)
  THEN [out |-> acc, res |-> EndClasses(s, i)]
  ELSE LET c == FrameClass(s, s.frames[i])
       IN IF c = "msg" THEN Scan(s, i + 1, Append(acc, s.frames[i].id))
          ELSE IF c = "zero" THEN Scan(s, i + 1, Append(acc, 0))
          ELSE [out |-> acc, res |-> Final(s, c)]

(* unary Connect: the whole body is one message; a clean cut cannot be seen (don't care) *)
RawExpect(s) ==
  LET f == s.frames[1] IN
  \* a non-200 unary Connect response is an error whatever its body holds (C06 decides which); the body is still
  \* peer-controlled data read under the same limit (C09: Bounded)
  IF NonOK(s) \/ DoErr(s) THEN [out |-> <<>>, res |-> {"transport"}]
  \* over the limit: the rest of the body is drained before the failure is reported -- if the context ends meanwhile the
  \* call fails as the context says (C15), like an over-limit envelope whose payload is being skipped
  ELSE IF s.limit > 0 /\ Avail(s) > s.limit
       THEN [out |-> <<>>, res |-> IF s.tail \in CtxTails THEN {s.tail} ELSE {"limit", "transport"}]
  ELSE IF s.tail \in CtxTails THEN [out |-> <<>>, res |-> {s.tail}]
  ELSE IF s.tail # "eof" THEN [out |-> <<>>, res |-> {"transport"}]
  ELSE IF Avail(s) < f.len THEN [out |-> <<>>, res |-> {"dontcare"}]
  ELSE LET c == FrameClass(s, f) IN
       IF c = "msg" THEN [out |-> <<f.id>>, res |-> {"end"}]
       ELSE IF c = "zero" THEN [out |-> <<0>>, res |-> {"end"}]
       ELSE [out |-> <<>>, res |-> {c}]

Expect(s) == IF s.raw THEN RawExpect(s) ELSE Scan(s, 1, <<>>)

(* -------- state machine -------- *)
Fresh(s) == /\ sc' = s /\ delivered' = 0 /\ eof' = "no" /\ fi' = 1 /\ out' = <<>>
            /\ res' = "open" /\ hold' = 0
ResetTo(s) == Fresh(s)

InitWith(s) == /\ sc = s /\ delivered = 0 /\ eof = "no" /\ fi = 1 /\ out = <<>> /\ res = "open" /\ hold = 0
Init == \E s \in Scenarios : InitWith(s)

(* transport: hand over k more bytes *)
TRead(k) == /\ eof = "no" /\ k >= 1 /\ delivered + k <= Avail(sc)
            /\ delivered' = delivered + k
            /\ UNCHANGED <<sc, eof, fi, out, res, hold>>
(* transport: signal the end (clean, unexpected or failing) once everything available was handed over *)
TEnd == /\ eof = "no" /\ delivered = Avail(sc)
        /\ eof' = sc.tail
        /\ UNCHANGED <<sc, delivered, fi, out, res, hold>>

Complete == ~sc.raw /\ fi <= Len(sc.frames) /\ End(sc, fi) <= delivered
PrefixIn == ~sc.raw /\ fi <= Len(sc.frames) /\ Start(sc, fi) + 5 <= delivered

(* reader: a complete message frame is decoded into the holder and yielded *)
RMsg == /\ res = "open" /\ Complete
        /\ LET f == sc.frames[fi] c == FrameClass(sc, f) IN
           /\ c \in {"msg", "zero"}
           /\ hold' = IF c = "msg" THEN f.id
                      ELSE IF ZeroShortcut /\ sc.reuse THEN hold   \* defect: holder not reset
                      ELSE 0
           /\ out' = Append(out, hold')
        /\ fi' = fi + 1
        /\ UNCHANGED <<sc, delivered, eof, res>>

(* reader: the declared length exceeds the limit -- decided on the prefix alone *)
RLimit == /\ res = "open" /\ PrefixIn
          /\ Limited(sc, sc.frames[fi]) /\ sc.frames[fi].len > sc.limit
          /\ res' \in Final(sc, "limit")
          /\ UNCHANGED <<sc, delivered, eof, fi, out, hold>>

(* reader: a complete frame that is not a deliverable message ends the stream *)
RStop == /\ res = "open" /\ Complete
         /\ LET c == FrameClass(sc, sc.frames[fi]) IN
            /\ c \notin {"msg", "zero"}
            /\ res' \in Final(sc, c)
         /\ UNCHANGED <<sc, delivered, eof, fi, out, hold>>

(* reader: the transport signalled the end and no complete frame is left *)
REnd == /\ res = "open" /\ ~sc.raw /\ eof # "no" /\ ~Complete
        /\ res' = TailClass(sc, delivered - Start(sc, fi))
        /\ UNCHANGED <<sc, delivered, eof, fi, out, hold>>

(* unary Connect: everything is read first, then judged *)
RRaw == /\ res = "open" /\ sc.raw /\ (eof # "no" \/ (sc.limit > 0 /\ delivered > sc.limit))
        /\ \E c \in RawExpect(sc).res :
             /\ res' = c
             /\ out' = IF c = "end" THEN RawExpect(sc).out ELSE out
        /\ UNCHANGED <<sc, delivered, eof, fi, hold>>

Reader == RMsg \/ RLimit \/ RStop \/ REnd \/ RRaw
Next == (\E k \in 1..6 : TRead(k)) \/ TEnd \/ Reader
Spec == Init /\ [][Next]_vars

Done == res # "open"

(* -------- properties -------- *)
IsPrefixOf(a, b) == Len(a) <= Len(b) /\ \A i \in 1..Len(a) : a[i] = b[i]

\* C03: whatever the segmentation, the outcome is the whole-wire oracle's
SegIndep == Done => /\ res \in Expect(sc).res
                    /\ (res # "dontcare" => out = Expect(sc).out)

\* C04: a client reports a clean end only if the protocol's terminator arrived
TerminatorSeen(s) ==
  IF s.raw THEN Avail(s) >= WireLen(s) /\ s.tail = "eof"
  ELSE IF s.proto = "grpc" THEN s.trailers = "ok" /\ s.tail = "eof"
  ELSE \E i \in 1..Len(s.frames) : End(s, i) <= Avail(s) /\ IsEnd(s.proto, s.frames[i].flag)
OnlyTerminatorIsSuccess == (res = "end" /\ sc.side = "client") => TerminatorSeen(sc)

\* C04 handler side: a clean end only at a frame boundary after a clean EOF
HandlerCleanEnd == (res = "end" /\ sc.side = "handler" /\ ~sc.raw) =>
                     /\ sc.tail = "eof"
                     /\ \E i \in 1..(Len(sc.frames) + 1) : Start(sc, i) = Avail(sc)

\* C01 / C04: what was yielded is a prefix of what was sent, ids intact
SentIds(s) == [i \in 1..Len(s.frames) |->
                 IF s.frames[i].body = "msg" THEN s.frames[i].id ELSE 0]
PrefixOfSent == \A i \in 1..Len(out) :
                  /\ i <= Len(sc.frames)
                  /\ sc.frames[i].body \in {"msg", "zero"}
                  /\ out[i] = SentIds(sc)[i]

\* C09: nothing above the limit is ever yielded, on the wire or inflated
LimitExact == sc.limit > 0 =>
                \A i \in 1..Len(out) : sc.frames[i].len <= sc.limit /\ sc.frames[i].ilen <= sc.limit
\* C09 (converse): a stream of in-limit, well-formed messages is never refused for its size
NoSpuriousLimit == res = "limit" =>
                     \E i \in 1..Len(sc.frames) : sc.frames[i].len > sc.limit \/ sc.frames[i].ilen > sc.limit
                        \/ (sc.raw /\ Avail(sc) > sc.limit)

(* -------- the API shapes on top of the stream outcome -------- *)
\* unary-shaped client APIs (CallUnary, CloseAndReceive) succeed iff exactly one message then a clean end
UnaryOK(o, r) == r = "end" /\ Len(o) = 1

(* -------- codes a result class may surface as (1..16; 0 = success) -------- *)
AnyCode == 1..16
ServerCode == 5
CodesOf(s, c) ==
  CASE c = "end"        -> {0}
    [] c = "server_err" -> {ServerCode}
    [] c = "limit"      -> {3, 8}
    [] c = "nocomp"     -> IF s.side = "handler" THEN {3, 13} ELSE AnyCode
    [] c = "decode"     -> IF s.side = "handler" THEN {3} ELSE AnyCode
    [] c = "inflate"    -> IF s.side = "handler" THEN {3} ELSE AnyCode
    [] c = "special_request" -> 0..16
    [] c = "dontcare"   -> 0..16
    [] c = "ctxc"       -> {1}         \* C15: cancel() while receiving => canceled
    [] c = "ctxd"       -> {4}         \*      the deadline passing     => deadline_exceeded
    [] OTHER            -> AnyCode     \* truncated, transport, noterm, flags, endbad

(* -------- writer half: envelopeWriter.Write -------- *)
\* a message of `size` encoded bytes is compressed iff a pool is configured and size >= minBytes;
\* the compressed flag is set iff it was compressed
WFlag(pool, minBytes, size) == IF pool # "none" /\ size >= minBytes THEN 1 ELSE 0
=============================================================================
