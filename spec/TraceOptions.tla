---------------------------- MODULE TraceOptions ----------------------------
(* Trace specification for Options (C16, C19).                                  *)
(* Events: reset{sc}  apply{t}*  obs{enter, exit, sendpre, recvpost}            *)
(*         outcome{ok, code, msg, got, handle_calls, seen, aborted}             *)
EXTENDS Options, TraceBase
TraceInit == l = 1 /\ failed = FALSE /\ InitWith([opts |-> <<>>, side |-> "client", shape |-> "unary"])
TReset == Ev("reset") /\ ResetTo(Cur.sc) /\ Consume /\ failed' = FALSE
\* the fold over the option tree, one node at a time
TApply == Ev("apply") /\ ((Cur.t = "ics" /\ ApplyIcs) \/ (Cur.t = "group" /\ ApplyGroup))
\* the order in which the layers of the real call ran
TObs == /\ Ev("obs") /\ Call
        /\ Cur.enter = obs'.enter
        /\ IF Panics(sc)
           THEN Cur.exit = ExitOnPanic(sc)
           ELSE /\ Cur.exit = obs'.exit
                /\ (sc.shape = "stream" /\ ~Fails(sc) => Cur.sendpre = obs'.sendpre /\ Cur.recvpost = obs'.recvpost)
TOutcome ==
  /\ Ev("outcome") /\ pc = "done" /\ UNCHANGED vars
  /\ IF Fails(sc)
     \* calls that do not panic are unaffected: the handler's own error reaches the client, the recovery function is idle
     THEN ~Cur.ok /\ Cur.handle_calls = 0 /\ Cur.seen = <<>> /\ ~Cur.aborted
          /\ Cur.code = 10 /\ Cur.msg = "handler" /\ Cur.got = GotBefore(sc)
     ELSE IF ~Panics(sc) THEN Cur.ok /\ Cur.handle_calls = 0
     ELSE IF sc.panic.value = "abort" THEN ~Cur.ok /\ Cur.handle_calls = 0 /\ Cur.aborted
     ELSE IF Recovers(sc)
     THEN /\ Cur.handle_calls = 1 /\ Cur.seen = <<sc.panic.value>>
          /\ ~Cur.ok /\ Cur.got = GotBefore(sc)
          \* ("int": the function answers with a plain Go error -- unknown, with its text, like any uncoded handler error)
          /\ Cur.code = (IF sc.panic.value = "int" THEN 2 ELSE 15)
          \* ("bytes": the function's message is not valid UTF-8 -- how it is made presentable is the protocol's business)
          /\ (sc.panic.value \notin {"bytes", "int"} => Cur.msg = "recovered")
          /\ (sc.panic.value = "int" => Cur.msg = "recovered plainly")
          \* "the client receives the error that function returned": with its metadata, and next to the trailers the
          \* handler had set before it panicked
          /\ (sc.panic.value # "int" => Cur.recmeta = "m" /\ Cur.recdet = "rec-detail")
          /\ (sc.kind \in {"server", "bidi"} => Cur.rectrl = "t")
     ELSE ~Cur.ok /\ Cur.handle_calls = 0
Normal == TReset \/ ((TApply \/ TObs \/ TOutcome) /\ Consume /\ UNCHANGED failed)
TraceNext == \/ (~failed /\ Normal)
             \/ (~failed /\ ~ENABLED Normal /\ Reject /\ UNCHANGED vars)
             \/ (SkipRest /\ UNCHANGED vars)
             \/ (failed /\ TReset)
TraceSpec == TraceInit /\ [][TraceNext]_<<vars, l, failed>>
=============================================================================
