-------------------------------- MODULE Serve --------------------------------
(***************************************************************************)
(* Handler.ServeHTTP as a pipeline (handler.go), one action per guard:      *)
(*   G505  bidi over HTTP/1.x            -> 505                             *)
(*   G405  method other than POST        -> 405, Allow: POST                *)
(*   G415  content type not served       -> 415, Accept-Post                *)
(*   Serve: request compression -> unimplemented; timeout header ->         *)
(*          deadline | invalid_argument; interceptors + user code           *)
(* Decides C07 (any request is answered safely), C12 (dispatch), the        *)
(* handler half of C10 (timeout grammar) and of C08 (unknown compression).  *)
(*                                                                         *)
(* sc = [kind, method, major, ctype : STRING, codecs : Seq(STRING) (extra), *)
(*       enc : "none"|"gzip"|"unknown", theader : "none"|"connect"|"grpc",  *)
(*       timeout : Seq(CHAR), body, limit]                                  *)
(***************************************************************************)
EXTENDS Integers, Sequences, FiniteSets, TLC, TimeoutGrammar

VARIABLES sc, pc, r
vars == <<sc, pc, r>>

Range(s) == {s[i] : i \in 1..Len(s)}
CodecNames(s) == {"proto", "json"} \cup Range(s.codecs)

ConnectCTs(s) == IF s.kind = "unary" THEN {"application/" \o n : n \in CodecNames(s)}
                 ELSE {"application/connect+" \o n : n \in CodecNames(s)}
GrpcCTs(s)    == {"application/grpc+" \o n : n \in CodecNames(s)} \cup {"application/grpc"}
WebCTs(s)     == {"application/grpc-web+" \o n : n \in CodecNames(s)} \cup {"application/grpc-web"}
AcceptPost(s) == ConnectCTs(s) \cup GrpcCTs(s) \cup WebCTs(s)
ProtoOf(s) == IF s.ctype \in ConnectCTs(s) THEN "connect"
              ELSE IF s.ctype \in GrpcCTs(s) THEN "grpc"
              ELSE IF s.ctype \in WebCTs(s) THEN "grpcweb" ELSE "none"

(* ---- timeout grammar: TimeoutGrammar.tla ---- *)
Relevant(s) == (ProtoOf(s) = "connect" /\ s.theader = "connect") \/ (ProtoOf(s) \in {"grpc", "grpcweb"} /\ s.theader = "grpc")
TimeoutOK(s) == ~Relevant(s) \/ Len(s.timeout) = 0 \/
                (IF s.theader = "connect" THEN ConnectGrammatical(s.timeout) ELSE GrpcGrammatical(s.timeout))
Deadline(s) == IF ~Relevant(s) \/ Len(s.timeout) = 0 THEN DL("none", 0)
               ELSE IF s.theader = "connect" THEN ConnectMillis(s.timeout) ELSE GrpcMillis(s.timeout)

(* ---- what the envelope reader gives user code, by body class (see Frames.tla for the byte level) ---- *)
RawBody(s) == ProtoOf(s) = "connect" /\ s.kind = "unary"
FirstMessage(s) == s.kind \in {"unary", "server"}      \* the library reads the first message before user code
\* [msgs yielded, codes the call may end with (0 = success)]
Stream(s) ==
  CASE s.body = "good"      -> [msgs |-> <<1>>, codes |-> {0}]
    [] s.body = "two"       -> [msgs |-> IF FirstMessage(s) THEN <<1>> ELSE <<1, 2>>, codes |-> {0}]
    \* an empty unary Connect body is the codec's business: the binary codecs read the zero message, for JSON the empty
    \* string is not a document -- it must not reach user code as a message
    [] s.body = "empty"     -> IF RawBody(s) /\ s.ctype = "application/json" THEN [msgs |-> <<>>, codes |-> {3}]
                               ELSE IF RawBody(s) THEN [msgs |-> <<0>>, codes |-> 0..16]
                               ELSE IF FirstMessage(s) THEN [msgs |-> <<>>, codes |-> 1..16]
                               ELSE [msgs |-> <<>>, codes |-> {0}]
    \* three messages, each below the limit, together above it (the request announces its Content-Length)
    [] s.body = "manyok"    -> IF RawBody(s) THEN [msgs |-> <<>>, codes |-> 0..16]       \* (no envelopes: one oversize or undecodable body)
                               ELSE [msgs |-> IF FirstMessage(s) THEN <<1>> ELSE <<1, 2, 3>>, codes |-> {0}]
    [] s.body = "garbage"   -> [msgs |-> <<>>, codes |-> 1..16]
    [] s.body = "truncated" -> [msgs |-> <<>>, codes |-> IF RawBody(s) THEN 0..16 ELSE 1..16]
    [] s.body \in {"badmsg", "badutf8"} -> [msgs |-> <<>>, codes |-> {3}]
    [] s.body = "oversize"  -> [msgs |-> <<>>, codes |-> IF s.limit > 0 THEN {3, 8} ELSE {0}]
    [] s.body = "cnoenc"    -> IF s.enc = "gzip" THEN [msgs |-> <<1>>, codes |-> {0}]     \* the header does name it
                               ELSE [msgs |-> <<>>, codes |-> IF RawBody(s) THEN {3} ELSE {3, 13}]
    \* the same flag on a payload that is NOT compressed (a plain, valid message): no encoding named -> the flag is a
    \* protocol error whatever the payload looks like; gzip named -> the payload does not inflate
    [] s.body = "cflagplain" -> [msgs |-> <<>>, codes |-> IF s.enc = "gzip" THEN {3} ELSE {3, 13}]
    \* a first frame with protocol-specific flag bits (end-of-stream / trailer / unknown), empty or not:
    \* never a message.  Where the library reads the first message itself the call must fail; stream-shaped
    \* handlers see the end of their input one way or the other (don't care).
    [] s.body \in {"flagged", "flagged0"} -> IF RawBody(s) THEN [msgs |-> <<>>, codes |-> 0..16]
                               ELSE IF FirstMessage(s) THEN [msgs |-> <<>>, codes |-> 1..16]
                               ELSE [msgs |-> <<>>, codes |-> 0..16]
    [] s.body = "msgthenbad" -> [msgs |-> <<1>>, codes |-> IF FirstMessage(s) THEN {0} ELSE {3}]

HTTPStatusOf(c) ==
  CASE c = 1 -> 408 [] c = 2 -> 500 [] c = 3 -> 400 [] c = 4 -> 408 [] c = 5 -> 404 [] c = 6 -> 409
    [] c = 7 -> 403 [] c = 8 -> 429 [] c = 9 -> 412 [] c = 10 -> 409 [] c = 11 -> 400 [] c = 12 -> 404
    [] c = 13 -> 500 [] c = 14 -> 503 [] c = 15 -> 500 [] c = 16 -> 401 [] OTHER -> 500

Bare(st) == [status |-> st, bare |-> TRUE, ran |-> {0}, iran |-> {0}, codes |-> {}, msgs |-> <<>>, dl |-> DL("none", 0)]
Rejected(c) == [status |-> 0, bare |-> FALSE, ran |-> {0}, iran |-> {0}, codes |-> {c}, msgs |-> <<>>, dl |-> DL("none", 0)]
Open == [status |-> 0, bare |-> FALSE, ran |-> {}, iran |-> {}, codes |-> {}, msgs |-> <<>>, dl |-> DL("none", 0)]

G505 == /\ pc = "g505"
        /\ IF sc.kind = "bidi" /\ sc.major < 2 THEN r' = Bare(505) /\ pc' = "done"
           ELSE r' = r /\ pc' = "g405"
        /\ UNCHANGED sc
G405 == /\ pc = "g405"
        /\ IF sc.method # "POST" THEN r' = Bare(405) /\ pc' = "done" ELSE r' = r /\ pc' = "g415"
        /\ UNCHANGED sc
G415 == /\ pc = "g415"
        /\ IF sc.ctype \notin AcceptPost(sc) THEN r' = Bare(415) /\ pc' = "done" ELSE r' = r /\ pc' = "serve"
        /\ UNCHANGED sc
\* After dispatch (handler.go ServeHTTP): SetTimeout runs first but a failed negotiation is reported first;
\* an invalid timeout is reported without running anything; otherwise interceptors and user code run,
\* fed by the envelope reader.
RunV(s, dl) ==
  LET st == Stream(s)
      fails == 0 \notin st.codes        \* the first message cannot be delivered
  IN [status |-> 0, bare |-> FALSE,
      ran |-> IF FirstMessage(s) /\ fails THEN {0}
              ELSE IF FirstMessage(s) /\ st.codes # {0} THEN {0, 1} ELSE {1},
      iran |-> IF s.kind = "unary" /\ fails THEN {0}
               ELSE IF s.kind = "unary" /\ st.codes # {0} THEN {0, 1} ELSE {1},
      codes |-> st.codes, msgs |-> st.msgs, dl |-> dl]
\* a grammatical timeout of zero (or below a millisecond) is honoured like any other: the deadline has passed when
\* the call starts, so it may end as deadline_exceeded before user code runs -- user code that does run sees it
Expired(dl) == dl.k = "ms" /\ dl.ms = 0
RunX(s, dl) == LET v == RunV(s, dl) IN
               IF Expired(dl) THEN [v EXCEPT !.ran = @ \cup {0}, !.codes = @ \cup {4}] ELSE v
\* "GZIP": a name that differs from a registered one in letter case only.  The handler either does not know it
\* (Rejected(12), see Alternative) or knows it for what it is -- then the messages are decompressed like any gzip
\* message.  It never half-knows it.
AsGzip(s) == IF s.enc = "GZIP" THEN [s EXCEPT !.enc = "gzip"] ELSE s
ServeV(s0) == LET s == AsGzip(s0) IN
             IF s.enc = "unknown" THEN Rejected(12)
             ELSE IF ~TimeoutOK(s) THEN Rejected(3)
             ELSE RunX(s, Deadline(s))
Alternative(s) == IF s.enc = "GZIP" THEN {Rejected(12)} ELSE {}
Serve == /\ pc = "serve" /\ r' = ServeV(sc) /\ pc' = "done" /\ UNCHANGED sc
Next == G505 \/ G405 \/ G415 \/ Serve

InitWith(s) == sc = s /\ pc = "g505" /\ r = Open
ResetTo(s)  == sc' = s /\ pc' = "g505" /\ r' = Open

(* ---- properties ---- *)
Done == pc = "done"
\* C07 / C12: user code at most once; never for a request that is refused
AtMostOnce == Done => r.ran \subseteq {0, 1} /\ r.iran \subseteq {0, 1}
RefusedNeverRuns == Done /\ (r.bare \/ r.codes \in {{12}} \/ ~TimeoutOK(sc)) => r.ran = {0} /\ r.iran = {0}
\* C12: accepted iff the content type is advertised
AcceptedIffAdvertised == Done /\ sc.method = "POST" /\ ~(sc.kind = "bidi" /\ sc.major < 2) =>
                           ((r.status = 415) <=> (sc.ctype \notin AcceptPost(sc)))
\* C07: undeliverable input is never a success
NeverSuccessOnGarbage == Done /\ ~r.bare /\ sc.body \in {"garbage", "badmsg", "badutf8"} /\ ~RawBody(sc) /\ r.ran # {0} => 0 \notin r.codes
\* C10: a malformed timeout never reaches user code
BadTimeoutRejected == Done /\ ~r.bare /\ sc.enc # "unknown" /\ ~TimeoutOK(sc) => r.codes = {3} /\ r.ran = {0}
=============================================================================
