SPECIFICATION GenC08Spec
INVARIANT Emit
CHECK_DEADLOCK FALSE
