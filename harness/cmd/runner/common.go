package main

import (
	"context"
	"errors"
	"fmt"
	"io"
	"math/rand"
	"net/http"
	"strings"
	"sync"

	connect "github.com/bufbuild/connect-go"
	"google.golang.org/protobuf/encoding/protowire"
	"google.golang.org/protobuf/types/known/wrapperspb"
)

type BV = wrapperspb.BytesValue

// ---- payloads ------------------------------------------------------------

// valueForEncodedLen returns the length of a BytesValue.value whose proto encoding is exactly n bytes
// (n >= 3), or -1 when no such length exists.
func valueForEncodedLen(n int) int {
	for v := n - 2; v >= 1 && v >= n-6; v-- {
		if 1+protowire.SizeVarint(uint64(v))+v == n {
			return v
		}
	}
	return -1
}

// payloadFor builds the value of message `id`: first byte is the id, the rest seeded noise.
func payloadFor(id int, vlen int, rng *rand.Rand) []byte {
	if vlen < 1 {
		vlen = 1
	}
	b := make([]byte, vlen)
	rng.Read(b)
	b[0] = byte(id)
	return b
}

// Table maps payloads back to message ids (projection).  Anything unknown projects to -1 ("corrupt").
type Table struct {
	mu sync.Mutex
	m  map[string]int
}

func NewTable() *Table { return &Table{m: map[string]int{}} }
func (t *Table) Put(id int, value []byte) {
	t.mu.Lock()
	t.m[string(value)] = id
	t.mu.Unlock()
}
func (t *Table) ID(value []byte) int {
	if len(value) == 0 {
		return 0
	}
	t.mu.Lock()
	defer t.mu.Unlock()
	if id, ok := t.m[string(value)]; ok {
		return id
	}
	return -1
}

// ---- errors ----------------------------------------------------------------

// codeOf: 0 for nil, the Connect code if the error can be inspected as one, -1 otherwise.
func codeOf(err error) int {
	if err == nil {
		return 0
	}
	var ce *connect.Error
	if errors.As(err, &ce) {
		return int(ce.Code())
	}
	return -1
}

func isEOF(err error) bool { return err != nil && errors.Is(err, io.EOF) }

// ---- protocols -------------------------------------------------------------

func clientProtoOpts(proto string) []connect.ClientOption {
	switch proto {
	case "grpc":
		return []connect.ClientOption{connect.WithGRPC()}
	case "grpcweb":
		return []connect.ClientOption{connect.WithGRPCWeb()}
	}
	return nil
}

func contentType(proto string, unary bool, codec string) string {
	switch proto {
	case "grpc":
		return "application/grpc+" + codec
	case "grpcweb":
		return "application/grpc-web+" + codec
	}
	if unary {
		return "application/" + codec
	}
	return "application/connect+" + codec
}

func encodingHeader(proto string, unary bool) string {
	switch proto {
	case "grpc", "grpcweb":
		return "Grpc-Encoding"
	}
	if unary {
		return "Content-Encoding"
	}
	return "Connect-Content-Encoding"
}

func acceptEncodingHeader(proto string, unary bool) string {
	switch proto {
	case "grpc", "grpcweb":
		return "Grpc-Accept-Encoding"
	}
	if unary {
		return "Accept-Encoding"
	}
	return "Connect-Accept-Encoding"
}

// ---- scripted byte streams ---------------------------------------------------

var errInjected = errors.New("verif: injected transport failure")

// scriptedBody is an io.ReadCloser that hands out `data` in the chunk sizes of `script`
// (capped by what the caller asks for), then ends with `tail`:
// "eof" clean io.EOF, "ueof" io.ErrUnexpectedEOF, "err" an injected transport error.
// If eofWith is set the last bytes are returned together with the end error.
// Every Read is recorded.
type scriptedBody struct {
	mu      sync.Mutex
	data    []byte
	script  []int
	si      int
	tail    string
	eofWith bool
	rec     *Rec
	done    bool
	closed  int
	onEOF   func()
	errv    error // what a tail "err" fails with (default: errInjected)
}

// rstErrors: what net/http's HTTP/2 client reports when the peer resets the stream -- a transport failure like any other
// as far as the call's outcome goes (coded error, never success), whatever the reset code says.
var rstNames = []string{"NO_ERROR", "CANCEL", "REFUSED_STREAM", "ENHANCE_YOUR_CALM", "INADEQUATE_SECURITY", "INTERNAL_ERROR",
	"HTTP_1_1_REQUIRED", "STREAM_CLOSED"}

func rstError(i int) error {
	return fmt.Errorf("stream error: stream ID %d; %s; received from peer", 2*i+1, rstNames[i%len(rstNames)])
}

func (s *scriptedBody) tailErr() error {
	switch s.tail {
	case "ueof":
		return io.ErrUnexpectedEOF
	case "err":
		if s.errv != nil {
			return s.errv
		}
		return errInjected
	case "ctxc":
		return context.Canceled
	case "ctxd":
		return context.DeadlineExceeded
	}
	return io.EOF
}

func (s *scriptedBody) Read(p []byte) (int, error) {
	s.mu.Lock()
	defer s.mu.Unlock()
	if len(p) == 0 {
		return 0, nil
	}
	if s.done {
		return 0, s.tailErr()
	}
	if len(s.data) == 0 {
		s.done = true
		if s.onEOF != nil {
			s.onEOF()
		}
		s.rec.Add(E("read", "k", 0, "e", s.tail))
		return 0, s.tailErr()
	}
	k := len(s.data)
	if s.si < len(s.script) {
		k = s.script[s.si]
		s.si++
	}
	if k > len(s.data) {
		k = len(s.data)
	}
	if k > len(p) {
		k = len(p)
	}
	if k < 1 {
		k = 1
	}
	n := copy(p, s.data[:k])
	s.data = s.data[n:]
	if len(s.data) == 0 && s.eofWith {
		s.done = true
		if s.onEOF != nil {
			s.onEOF()
		}
		s.rec.Add(E("read", "k", n, "e", s.tail))
		return n, s.tailErr()
	}
	s.rec.Add(E("read", "k", n, "e", "no"))
	return n, nil
}

func (s *scriptedBody) Close() error {
	s.mu.Lock()
	s.closed++
	s.mu.Unlock()
	return nil
}

// ---- a scripted HTTPClient -----------------------------------------------------

// fakeHTTP answers every request with a prepared response after draining the request body
// in the background (the library writes the request through a pipe).
type fakeHTTP struct {
	respond func(req *http.Request) (*http.Response, error)
	wg      sync.WaitGroup
	lastReq *http.Request
	reqBody []byte
	mu      sync.Mutex
}

func (f *fakeHTTP) Do(req *http.Request) (*http.Response, error) {
	f.mu.Lock()
	f.lastReq = req
	f.mu.Unlock()
	f.wg.Add(1)
	go func() {
		defer f.wg.Done()
		b, _ := io.ReadAll(req.Body)
		f.mu.Lock()
		f.reqBody = b
		f.mu.Unlock()
	}()
	return f.respond(req)
}

func statusLine(code int) string {
	return fmt.Sprintf("%d %s", code, http.StatusText(code))
}

func bg() context.Context { return context.Background() }

func hasPrefixFold(s, p string) bool { return len(s) >= len(p) && strings.EqualFold(s[:len(p)], p) }

func asConnect(err error, target **connect.Error) bool { return errors.As(err, target) }
