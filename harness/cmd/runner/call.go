package main

import (
	"bytes"
	"context"
	"encoding/json"
	"errors"
	"fmt"
	"io"
	"math/rand"
	"net/http"
	"runtime/pprof"
	"strings"
	"sync"
	"sync/atomic"
	"time"

	connect "github.com/bufbuild/connect-go"
)

// Family "call": client programs (sequences of Send / CloseRequest / Receive / CloseResponse / cancel)
// against handler programs over a real loopback HTTP/2 server (C14, C15).
// Specification: spec/Call.tla, trace specification spec/TraceCall.tla.

type callOp struct {
	Op   string `json:"op"`
	How  string `json:"how"`
	Mode string `json:"mode"`
}

type callHandler struct {
	Hrecv  int    `json:"hrecv"`
	Hsend  int    `json:"hsend"`
	Hdrain bool   `json:"hdrain"`
	Hret   string `json:"hret"`
	// Hflood: keep sending until a Send fails (the client went away)
	Hflood bool `json:"hflood"`
}

type callScenario struct {
	Tid   int         `json:"tid"`
	Kind  string      `json:"kind"` // bidi (default) | server | client
	HTTP  int         `json:"http"` // 2 (default) | 1
	Proto string      `json:"proto"`
	H     callHandler `json:"h"`
	Prog  []callOp    `json:"prog"`
	Msend int         `json:"msend"`
	Mrecv int         `json:"mrecv"`
	// Big: request messages of 4 MiB, more than the HTTP/2 flow-control window: a Send blocks until the handler
	// reads it or finishes
	Big bool `json:"big"`
}

// rejector is a handler-side interceptor: for a server-streaming scenario with hrecv = 0 it fails the call before
// the framework has read the request message (an authentication interceptor, say).
type rejector struct{}

func (rejector) WrapUnary(next connect.UnaryFunc) connect.UnaryFunc { return next }
func (rejector) WrapStreamingClient(next connect.StreamingClientFunc) connect.StreamingClientFunc {
	return next
}
func (rejector) WrapStreamingHandler(next connect.StreamingHandlerFunc) connect.StreamingHandlerFunc {
	return func(ctx context.Context, conn connect.StreamingHandlerConn) error {
		if v, ok := callStates.Load(conn.RequestHeader().Get("X-Verif-Sid")); ok {
			st := v.(*callState)
			if st.sc.Kind == "server" && st.sc.H.Hrecv == 0 {
				st.entered.Store(true)
				defer close(st.exited)
				st.ctxErr = ctx.Err() != nil
				return connect.NewError(handlerErrCode, errors.New("handler-err"))
			}
		}
		return next(ctx, conn)
	}
}

func callPayload(s *callScenario, n int) []byte {
	if !s.Big {
		return []byte{byte(n)}
	}
	b := make([]byte, 4<<20)
	b[0] = byte(n)
	return b
}

func init() { families["call"] = runCall }

// manualCtx is a context that ends on demand with the chosen error (cancel() or an expired deadline).
type manualCtx struct {
	context.Context
	done     chan struct{}
	once     sync.Once
	err      atomic.Value
	deadline bool
}

func (c *manualCtx) Done() <-chan struct{} { return c.done }
func (c *manualCtx) Err() error {
	if e, ok := c.err.Load().(error); ok {
		return e
	}
	return nil
}
func (c *manualCtx) Deadline() (time.Time, bool) {
	if c.deadline {
		return time.Now().Add(time.Hour), true
	}
	return time.Time{}, false
}
func (c *manualCtx) end(how string) {
	c.once.Do(func() {
		if how == "expired" {
			c.err.Store(context.DeadlineExceeded)
		} else {
			c.err.Store(context.Canceled)
		}
		close(c.done)
	})
}

type callRecKey struct{}

type callState struct {
	sc      *callScenario
	entered atomic.Bool
	exited  chan struct{}
	sawEOF  bool
	ctxErr  bool
}

var callStates sync.Map

type countingRT struct {
	rt     http.RoundTripper
	closed *atomic.Int64
}

type countBody struct {
	io.ReadCloser
	closed *atomic.Int64
}

func (b *countBody) Close() error { b.closed.Add(1); return b.ReadCloser.Close() }

func (c *countingRT) RoundTrip(r *http.Request) (*http.Response, error) {
	resp, err := c.rt.RoundTrip(r)
	if resp != nil && resp.Body != nil {
		resp.Body = &countBody{ReadCloser: resp.Body, closed: c.closed}
	}
	return resp, err
}

var (
	callOnce    sync.Once
	callServer  *loopback // TLS HTTP/2
	callServer1 *loopback // HTTP/1.1
)

const (
	procServer = "/verif.v1.Svc/ServerStream"
	procClient = "/verif.v1.Svc/ClientStream"
	procUnary  = "/verif.v1.Svc/Unary"
)

const handlerErrCode = connect.CodeFailedPrecondition

func callSetup() {
	h := connect.NewBidiStreamHandler(e2eProc, func(ctx context.Context, bs *connect.BidiStream[BV, BV]) error {
		v, ok := callStates.Load(bs.RequestHeader().Get("X-Verif-Sid"))
		if !ok {
			return errors.New("verif: unknown scenario")
		}
		st := v.(*callState)
		st.entered.Store(true)
		defer close(st.exited)
		p := st.sc.H
		got := 0
		ended := false
		for got < p.Hrecv {
			if _, err := bs.Receive(); err != nil {
				ended = true
				st.sawEOF = isEOF(err)
				break
			}
			got++
		}
		for i := 0; i < p.Hsend; i++ {
			if err := bs.Send(&BV{Value: []byte{byte(i + 1)}}); err != nil {
				st.ctxErr = ctx.Err() != nil
				return err
			}
		}
		if p.Hdrain && !ended {
			for {
				if _, err := bs.Receive(); err != nil {
					st.sawEOF = isEOF(err)
					break
				}
			}
		}
		if p.Hret == "stall" {
			<-ctx.Done()
			st.ctxErr = true
			return ctx.Err()
		}
		st.ctxErr = ctx.Err() != nil
		if p.Hret == "err" {
			return connect.NewError(handlerErrCode, errors.New("handler-err"))
		}
		return nil
	})
	finish := func(ctx context.Context, st *callState, p callHandler) error {
		if p.Hret == "stall" {
			<-ctx.Done()
			st.ctxErr = true
			return ctx.Err()
		}
		st.ctxErr = ctx.Err() != nil
		if p.Hret == "err" {
			return connect.NewError(handlerErrCode, errors.New("handler-err"))
		}
		return nil
	}
	// server streaming: the library has read the one request message; the program sends hsend messages
	hs := connect.NewServerStreamHandler(procServer, func(ctx context.Context, r *connect.Request[BV], ss *connect.ServerStream[BV]) error {
		v, ok := callStates.Load(r.Header().Get("X-Verif-Sid"))
		if !ok {
			return errors.New("verif: unknown scenario")
		}
		st := v.(*callState)
		st.entered.Store(true)
		defer close(st.exited)
		if st.sc.H.Hflood {
			// (incompressible, so that what the closing client drains is on the wire quickly whatever was negotiated)
			chunk := make([]byte, 64<<10)
			rand.New(rand.NewSource(int64(len(chunk)))).Read(chunk)
			for i := 0; i < 16384; i++ { // (1 GiB: far beyond anything a closing client drains)
				chunk[0] = byte(i%250 + 1)
				if err := ss.Send(&BV{Value: chunk}); err != nil {
					st.ctxErr = ctx.Err() != nil
					return err
				}
			}
			return nil
		}
		for i := 0; i < st.sc.H.Hsend; i++ {
			if err := ss.Send(&BV{Value: []byte{byte(i + 1)}}); err != nil {
				st.ctxErr = ctx.Err() != nil
				return err
			}
		}
		return finish(ctx, st, st.sc.H)
	}, connect.WithInterceptors(rejector{}))
	// client streaming: receive hrecv messages (or to the end when draining), answer with one message
	hc := connect.NewClientStreamHandler(procClient, func(ctx context.Context, cs *connect.ClientStream[BV]) (*connect.Response[BV], error) {
		v, ok := callStates.Load(cs.RequestHeader().Get("X-Verif-Sid"))
		if !ok {
			return nil, errors.New("verif: unknown scenario")
		}
		st := v.(*callState)
		st.entered.Store(true)
		defer close(st.exited)
		got := 0
		for (got < st.sc.H.Hrecv || st.sc.H.Hdrain) && cs.Receive() {
			got++
		}
		if got < st.sc.H.Hrecv || st.sc.H.Hdrain {
			st.sawEOF = cs.Err() == nil
		}
		if err := finish(ctx, st, st.sc.H); err != nil {
			return nil, err
		}
		return connect.NewResponse(&BV{Value: []byte{1}}), nil
	})
	// unary: the library has read the request; the program returns one response, an error, or waits for its context
	hu := connect.NewUnaryHandler(procUnary, func(ctx context.Context, r *connect.Request[BV]) (*connect.Response[BV], error) {
		v, ok := callStates.Load(r.Header().Get("X-Verif-Sid"))
		if !ok {
			return nil, errors.New("verif: unknown scenario")
		}
		st := v.(*callState)
		st.entered.Store(true)
		defer close(st.exited)
		if err := finish(ctx, st, st.sc.H); err != nil {
			return nil, err
		}
		return connect.NewResponse(&BV{Value: []byte{1}}), nil
	})
	// (the connection of a unary call is not visible to interceptors: a verif hook hands it to the recorder that
	//  travels in the call's context)
	connect.VerifUnaryConnHook = func(ctx context.Context, conn connect.StreamingClientConn) connect.StreamingClientConn {
		if rec, ok := ctx.Value(callRecKey{}).(*Rec); ok {
			return &loggedConn{StreamingClientConn: conn, rec: rec}
		}
		return conn
	}
	mux := http.NewServeMux()
	mux.Handle(procUnary, hu)
	mux.Handle(e2eProc, h)
	mux.Handle(procServer, hs)
	mux.Handle(procClient, hc)
	callServer = newLoopback(mux, true)
	callServer1 = newLoopback(mux, false)
}

// connLogger records every connection-level operation of a streaming call (the vocabulary of Call.tla),
// whoever issues it: the application (bidi) or the library's own wrappers (CallServerStream, CloseAndReceive).
type connLogger struct{ rec *Rec }

type loggedConn struct {
	connect.StreamingClientConn
	rec *Rec
}

func (c *loggedConn) Send(m any) error {
	c.rec.Add(E("call", "op", "send"))
	err := c.StreamingClientConn.Send(m)
	r, code := classifySend(err)
	c.rec.Add(E("ret", "op", "send", "res", r, "code", code))
	return err
}
func (c *loggedConn) CloseRequest() error {
	c.rec.Add(E("call", "op", "closereq"))
	err := c.StreamingClientConn.CloseRequest()
	r := "ok"
	if err != nil {
		r = "err"
	}
	c.rec.Add(E("ret", "op", "closereq", "res", r, "code", codeOf(err)))
	return err
}
func (c *loggedConn) Receive(m any) error {
	c.rec.Add(E("call", "op", "recv"))
	err := c.StreamingClientConn.Receive(m)
	r, code := classifyRecv(err)
	c.rec.Add(E("ret", "op", "recv", "res", r, "code", code))
	return err
}
func (c *loggedConn) CloseResponse() error {
	c.rec.Add(E("call", "op", "closeresp"))
	err := c.StreamingClientConn.CloseResponse()
	r := "ok"
	if err != nil {
		r = "err"
	}
	msg := ""
	if err != nil {
		msg = err.Error()
		if len(msg) > 120 {
			msg = msg[:120]
		}
	}
	c.rec.Add(E("ret", "op", "closeresp", "res", r, "code", codeOf(err), "msg", msg))
	return err
}
func (l connLogger) WrapUnary(next connect.UnaryFunc) connect.UnaryFunc { return next }
func (l connLogger) WrapStreamingHandler(next connect.StreamingHandlerFunc) connect.StreamingHandlerFunc {
	return next
}
func (l connLogger) WrapStreamingClient(next connect.StreamingClientFunc) connect.StreamingClientFunc {
	return func(ctx context.Context, spec connect.Spec) connect.StreamingClientConn {
		return &loggedConn{StreamingClientConn: next(ctx, spec), rec: l.rec}
	}
}

func classifySend(err error) (string, int) {
	switch {
	case err == nil:
		return "ok", 0
	case codeOf(err) == 1 || codeOf(err) == 4:
		return "ctx", codeOf(err)
	case isEOF(err):
		return "eof", codeOf(err)
	}
	return fmt.Sprintf("other:%d", codeOf(err)), codeOf(err)
}

func classifyRecv(err error) (string, int) {
	switch {
	case err == nil:
		return "msg", 0
	case codeOf(err) == 1 || codeOf(err) == 4:
		return "ctx", codeOf(err)
	case isEOF(err):
		return "eof", codeOf(err)
	case codeOf(err) == int(handlerErrCode):
		return "server", codeOf(err)
	}
	return fmt.Sprintf("other:%d", codeOf(err)), codeOf(err)
}

// libraryGoroutines counts goroutines labelled with this scenario's id that are inside the library.
func libraryGoroutines(sid string) (int, string) {
	var buf bytes.Buffer
	_ = pprof.Lookup("goroutine").WriteTo(&buf, 1)
	n := 0
	sample := ""
	for _, block := range strings.Split(buf.String(), "\n\n") {
		if !strings.Contains(block, `"verif_sid":"`+sid+`"`) {
			continue
		}
		if strings.Contains(block, "github.com/bufbuild/connect-go.") && !strings.Contains(block, "libraryGoroutines") {
			var c int
			if _, err := fmt.Sscanf(block, "%d @", &c); err == nil {
				n += c
			} else {
				n++
			}
			sample = block
		}
	}
	return n, sample
}

func runCall(raw json.RawMessage, seed int64, rec *Rec) {
	var s callScenario
	if err := json.Unmarshal(raw, &s); err != nil {
		panic(err)
	}
	callOnce.Do(callSetup)
	sid := fmt.Sprintf("%d-%d", seed, s.Tid)
	st := &callState{sc: &s, exited: make(chan struct{})}
	callStates.Store(sid, st)
	defer callStates.Delete(sid)
	hsend := s.H.Hsend
	if (s.Kind == "client" || s.Kind == "unary") && s.H.Hret != "ok" {
		hsend = 0 // a client-streaming handler's single response exists only if it returns successfully
	}
	rec.Add(E("reset", "tid", s.Tid, "sc", map[string]any{"msend": s.Msend, "mrecv": s.Mrecv, "hrecv": s.H.Hrecv,
		"hsend": hsend, "hdrain": s.H.Hdrain, "hret": s.H.Hret, "watch": true, "hflood": s.H.Hflood},
		"scn", map[string]any{"proto": s.Proto, "prog": s.Prog, "h": s.H, "kind": s.Kind, "http": s.HTTP, "big": s.Big}))

	var closed atomic.Int64
	srv := callServer
	if s.HTTP == 1 {
		srv = callServer1
	}
	proc := e2eProc
	switch s.Kind {
	case "server":
		proc = procServer
	case "client":
		proc = procClient
	case "unary":
		proc = procUnary
	}
	httpClient := &http.Client{Transport: &countingRT{rt: srv.client.Transport, closed: &closed}}
	copts := append(clientProtoOpts(s.Proto), connect.WithInterceptors(connLogger{rec: rec}))
	client := connect.NewClient[BV, BV](httpClient, srv.srv.URL+proc, copts...)
	hasDeadline := false
	for _, o := range s.Prog {
		if o.Op == "cancel" && o.How == "expired" {
			hasDeadline = true
		}
	}
	mctx := &manualCtx{Context: context.Background(), done: make(chan struct{}), deadline: hasDeadline}
	labels := pprof.Labels("verif_sid", sid)
	stuck := false
	didCloseResp := false
	pprof.Do(context.WithValue(mctx, callRecKey{}, rec), labels, func(ctx context.Context) {
		// pprof.Do derives a context: keep the manual one's semantics
		lctx := &labelCtx{Context: ctx, m: mctx}
		var bidi *connect.BidiStreamForClient[BV, BV]
		var sstream *connect.ServerStreamForClient[BV]
		var cstream *connect.ClientStreamForClient[BV, BV]
		switch s.Kind {
		case "server", "unary":
		case "client":
			cstream = client.CallClientStream(lctx)
			cstream.RequestHeader().Set("X-Verif-Sid", sid)
		default:
			bidi = client.CallBidiStream(lctx)
			bidi.RequestHeader().Set("X-Verif-Sid", sid)
		}
		nsent := 0
		// API-level operations; the connection-level events come from the connLogger interceptor
		run := func(op string) {
			switch op {
			case "send":
				nsent++
				if cstream != nil {
					_ = cstream.Send(&BV{Value: callPayload(&s, nsent)})
				} else {
					_ = bidi.Send(&BV{Value: callPayload(&s, nsent)})
				}
			case "closereq":
				_ = bidi.CloseRequest()
			case "recv":
				if sstream != nil {
					sstream.Receive()
				} else if bidi != nil {
					_, _ = bidi.Receive()
				}
			case "closeresp":
				didCloseResp = true
				if sstream != nil {
					_ = sstream.Close()
				} else if bidi != nil {
					_ = bidi.CloseResponse()
				}
			case "css": // CallServerStream: Send + CloseRequest inside the library
				req := connect.NewRequest(&BV{Value: callPayload(&s, 1)})
				req.Header().Set("X-Verif-Sid", sid)
				var err error
				sstream, err = client.CallServerStream(lctx, req)
				rec.Add(E("api", "op", "css", "ok", err == nil, "code", codeOf(err)))
			case "cu": // CallUnary: Send + CloseRequest + Receive + Receive + CloseResponse inside the library
				didCloseResp = true
				req := connect.NewRequest(&BV{Value: callPayload(&s, 1)})
				req.Header().Set("X-Verif-Sid", sid)
				_, err := client.CallUnary(lctx, req)
				rec.Add(E("api", "op", "cu", "ok", err == nil, "code", codeOf(err)))
			case "car": // CloseAndReceive: CloseRequest + Receive (+ Receive) + CloseResponse inside the library
				didCloseResp = true
				_, err := cstream.CloseAndReceive()
				rec.Add(E("api", "op", "car", "ok", err == nil, "code", codeOf(err)))
			}
		}
		pendingCancel := ""
		for i := 0; i < len(s.Prog) && !stuck; i++ {
			o := s.Prog[i]
			if o.Op == "cancel" {
				if o.Mode == "during" && i+1 < len(s.Prog) {
					pendingCancel = o.How
					continue
				}
				rec.Add(E("cancel", "how", o.How))
				mctx.end(o.How)
				continue
			}
			if (o.Op == "recv" || o.Op == "closeresp") && s.Kind == "server" && sstream == nil {
				continue // CallServerStream failed: there is no stream to use
			}
			done := make(chan struct{})
			go pprof.Do(lctx, labels, func(context.Context) {
				defer close(done)
				run(o.Op)
			})
			if pendingCancel != "" {
				select {
				case <-done:
					// the operation finished before the cancellation instant: the cancel falls between operations
					rec.Add(E("cancel", "how", pendingCancel))
					mctx.end(pendingCancel)
					pendingCancel = ""
					continue
				case <-time.After(40 * time.Millisecond):
					rec.Add(E("cancel", "how", pendingCancel))
					mctx.end(pendingCancel)
					pendingCancel = ""
				}
			}
			select {
			case <-done:
			case <-time.After(15 * time.Second):
				rec.Add(E("stuck", "op", o.Op, "stacks", allStacks()))
				stuck = true
			}
		}
	})
	// release everything the scenario may still hold, then look at what is left
	if stuck {
		mctx.end("canceled")
		return
	}
	if mctx.Err() != nil && !st.entered.Load() {
		time.Sleep(200 * time.Millisecond) // a cancelled request may never reach the handler
	}
	select {
	case <-st.exited:
		rec.Add(E("hexit", "saweof", st.sawEOF, "ctxerr", st.ctxErr))
	case <-time.After(func() time.Duration {
		if mctx.Err() != nil && !st.entered.Load() {
			return time.Millisecond
		}
		return 10 * time.Second
	}()):
		if mctx.Err() != nil && !st.entered.Load() {
			break // never started: nothing to wait for
		}
		// (a handler that started late, on a loaded machine, gets the full time as well)
		select {
		case <-st.exited:
			rec.Add(E("hexit", "saweof", st.sawEOF, "ctxerr", st.ctxErr))
		case <-time.After(10 * time.Second):
			rec.Add(E("hstuck", "stacks", allStacks()))
			mctx.end("canceled")
			return
		}
	}
	leaked, sample := 0, ""
	for i := 0; i < 1500; i++ {
		if leaked, sample = libraryGoroutines(sid); leaked == 0 {
			break
		}
		time.Sleep(10 * time.Millisecond)
	}
	rec.Add(E("quiesce", "leaked", leaked, "closed", closed.Load(), "closeresp", didCloseResp, "sample", sample))
	mctx.end("canceled")
}

// labelCtx: values (profiler labels) from the derived context, lifetime from the manual one.
type labelCtx struct {
	context.Context
	m *manualCtx
}

func (c *labelCtx) Done() <-chan struct{}       { return c.m.Done() }
func (c *labelCtx) Err() error                  { return c.m.Err() }
func (c *labelCtx) Deadline() (time.Time, bool) { return c.m.Deadline() }
