package main

import (
	"bytes"
	"compress/gzip"
	"context"
	"encoding/base64"
	"encoding/json"
	"errors"
	"fmt"
	"io"
	"math/rand"
	"net/http"
	"sort"
	"strings"
	"sync"
	"time"

	connect "github.com/bufbuild/connect-go"
	"github.com/bufbuild/connect-go/verifharness/refcodec"
	"google.golang.org/protobuf/types/known/anypb"
	"google.golang.org/protobuf/types/known/wrapperspb"
)

// Family "e2e": a real client talks to a real handler (in-memory duplex transport or loopback
// HTTP/1.1 / HTTP/2 servers).  Both programs come from the scenario; the raw exchange is tapped and
// tokenised by the reference codec.  Specification: spec/Wire.tla, trace spec spec/TraceWire.tla.

type kv struct {
	K string   `json:"k"`
	V []string `json:"v"`
}

type msgSc struct {
	ID   int `json:"id"`
	Vlen int `json:"vlen"`
}

type outSc struct {
	Kind  string `json:"kind"` // ok | err | plain | wrapped
	Code  int    `json:"code"`
	Msg   string `json:"msg"` // message class
	Ndet  int    `json:"ndet"`
	Meta  []kv   `json:"meta"`
	After int    `json:"after"` // responses sent before the error (server / bidi)
}

type e2eScenario struct {
	Tid       int               `json:"tid"`
	Proto     string            `json:"proto"`
	Kind      string            `json:"kind"`
	Codec     string            `json:"codec"`
	HTTP      int               `json:"http"`
	Transport string            `json:"transport"` // mem | loop
	Csend     string            `json:"csend"`
	Cmin      int               `json:"cmin"`
	Cacc      []string          `json:"cacc"` // client's extra algorithms in registration order (gzip is built in)
	Hpools    []string          `json:"hpools"`
	Hmin      int               `json:"hmin"`
	ReqHdr    []kv              `json:"reqhdr"`
	Req       []msgSc           `json:"req"`
	RespHdr   []kv              `json:"resphdr"`
	RespTrl   []kv              `json:"resptrl"`
	Resp      []msgSc           `json:"resp"`
	Out       outSc             `json:"out"`
	Shared    bool              `json:"shared"` // use the process-wide client for this configuration (C13)
	Echo      bool              `json:"echo"`   // bidi: the handler echoes; the client sends and receives concurrently
	Peer      string            `json:"peer"`   // "server": the real client talks to the reference codec's conformant server
	Choices   *refcodec.Choices `json:"choices"`
	// Peer == "client": the reference codec's conformant client talks to the real handler
	RChoices *refcodec.ReqChoices `json:"rchoices"`
}

// encodeMsg is decodeMsg's inverse: a BytesValue in the scenario's codec, written by the reference codec.
func encodeMsg(codec string, v []byte) []byte {
	if codec == "json" {
		b, _ := json.Marshal(base64.StdEncoding.EncodeToString(v))
		return b
	}
	return refcodec.WrapBytes(v)
}

// peerClientCall performs the exchange as a conformant foreign client and reports what that client decodes.
func peerClientCall(sc *e2eScenario, st *e2eState, sid string, httpClient connect.HTTPClient, url string) (ids []int, ev map[string]any, ok bool, hdr, trl http.Header) {
	unary := sc.Kind == "unary" && sc.Proto == "connect"
	var msgs [][]byte
	for _, m := range sc.Req {
		msgs = append(msgs, encodeMsg(sc.Codec, st.payload(m).Value))
	}
	app := http.Header{}
	app.Set("X-Verif-Sid", sid)
	addAll(app, sc.ReqHdr)
	// the algorithms this client reads, most preferred first (what the real client would advertise)
	all := append([]string{"gzip"}, sc.Cacc...)
	var accept []string
	seen := map[string]bool{}
	for i := len(all) - 1; i >= 0; i-- {
		if !seen[all[i]] {
			seen[all[i]] = true
			accept = append(accept, all[i])
		}
	}
	rc := refcodec.ReqChoices{}
	if sc.RChoices != nil {
		rc = *sc.RChoices
	}
	rc.Encoding = ""
	if sc.Csend != "" && sc.Csend != "none" && sc.Csend != "identity" {
		rc.Encoding = sc.Csend
	}
	header, body := refcodec.EncodeRequest(sc.Proto, unary, sc.Codec, msgs, app, accept, rc)
	req, _ := http.NewRequest(http.MethodPost, url, bytes.NewReader(body))
	req.Header = header
	ev = map[string]any{"code": 0, "msg": "", "details": []string{}, "meta": map[string][]string{}, "eof": false}
	resp, err := httpClient.Do(req)
	if err != nil {
		ev["code"], ev["msg"] = 14, "corrupt:transport"
		return []int{}, ev, false, http.Header{}, http.Header{}
	}
	raw, _ := io.ReadAll(resp.Body)
	_ = resp.Body.Close()
	d := refcodec.ParseResponse(sc.Proto, unary, header.Get("Content-Type"), resp.StatusCode, resp.Header, raw, resp.Trailer)
	ids = []int{}
	for _, p := range d.Msgs {
		if v, good := decodeMsg(sc.Codec, p); good {
			ids = append(ids, st.table.ID(v))
		} else {
			ids = append(ids, -1)
		}
	}
	hdr, trl = d.Header, d.Trailer
	if d.Err == nil && len(d.Problems) == 0 {
		return ids, ev, true, hdr, trl
	}
	if d.Err != nil {
		ds := []string{}
		for _, a := range d.Err.Details {
			ds = append(ds, classOfDetail(a.TypeURL, a.Value))
		}
		meta := http.Header{}
		for _, h := range []http.Header{d.Header, d.Trailer} {
			for k, v := range h {
				meta[k] = append(meta[k], v...)
			}
		}
		ev["code"], ev["msg"], ev["details"], ev["meta"] = d.Err.Code, classOfMsg(d.Err.Message), ds, appHeaders(meta)
	} else {
		ev["code"], ev["msg"] = 13, "corrupt:malformed response"
	}
	return ids, ev, false, hdr, trl
}

func init() { families["e2e"] = runE2E }

var msgClasses = map[string]string{
	"empty":    "",
	"ascii":    "a simple message",
	"nonascii": "héllo wörld ✓ \U0001F600",
	"ctl":      "a\x00b\x01c\x7fd\x1f",
	"pct":      "100% sure %zz %41 %",
	"crlf":     "line1\r\nline2\n",
	"blanks":   "  padded\t ",
	"long":     strings.Repeat("0123456789abcdef", 256),
}

func classOfMsg(s string) string {
	if p := strings.TrimSuffix(s, ": context deadline exceeded"); p != s {
		return "ctx:" + classOfMsg(p)
	}
	for k, v := range msgClasses {
		if v == s {
			return k
		}
	}
	if len(s) > 24 {
		s = s[:24]
	}
	return fmt.Sprintf("corrupt:%q", s)
}

func detailText(i int) string { return fmt.Sprintf("detail-%d ü", i) }

func classOfDetail(typeURL string, value []byte) string {
	if !strings.HasSuffix(typeURL, "/google.protobuf.StringValue") {
		return "corrupt-type:" + typeURL
	}
	v, ok := refcodec.UnwrapBytes(value)
	if !ok {
		return "corrupt-value"
	}
	for i := 1; i <= 4; i++ {
		if string(v) == detailText(i) {
			return fmt.Sprintf("d%d", i)
		}
	}
	return "corrupt-value"
}

// ---- custom compression "rev" with lifecycle instrumentation (also the C08 pool monitor) --------

type revCompressor struct {
	w   io.Writer
	buf []byte
}

func (c *revCompressor) Write(p []byte) (int, error) { c.buf = append(c.buf, p...); return len(p), nil }
func (c *revCompressor) Close() error {
	_, err := c.w.Write(refcodec.Rev(c.buf))
	c.buf = c.buf[:0]
	return err
}
func (c *revCompressor) Reset(w io.Writer) { c.w = w; c.buf = c.buf[:0] }

type revDecompressor struct {
	src  io.Reader
	out  []byte
	done bool
	err  error
}

func (d *revDecompressor) Read(p []byte) (int, error) {
	if !d.done {
		d.done = true
		raw, err := io.ReadAll(d.src)
		if err != nil {
			d.err = err
		} else if d.out, err = refcodec.Unrev(raw); err != nil {
			d.err = err
		}
	}
	if d.err != nil {
		return 0, d.err
	}
	if len(d.out) == 0 {
		return 0, io.EOF
	}
	n := copy(p, d.out)
	d.out = d.out[n:]
	return n, nil
}
func (d *revDecompressor) Close() error { return nil }
func (d *revDecompressor) Reset(r io.Reader) error {
	d.src, d.out, d.done, d.err = r, nil, false, nil
	return nil
}

func newGzipD() connect.Decompressor { return &gzip.Reader{} }
func newGzipC() connect.Compressor   { return gzip.NewWriter(io.Discard) }
func newRevD() connect.Decompressor  { return &revDecompressor{} }
func newRevC() connect.Compressor    { return &revCompressor{} }

// ---- shared handlers, per-scenario state found through a request header -------------------------

type e2eState struct {
	sid   string
	sc    *e2eScenario
	table *Table
	mu    sync.Mutex
	ran   int
	hMsgs []int
	hHdr  http.Header
	hSpec connect.Spec
}

var e2eStates sync.Map // sid -> *e2eState

func stateOf(h http.Header) *e2eState {
	v, ok := e2eStates.Load(h.Get("X-Verif-Sid"))
	if !ok {
		return nil
	}
	return v.(*e2eState)
}

// appKeys: application keys of the scenarios that do not start with "X-" (MC_Wire TrlSets)
var appKeys = map[string]bool{"Trace-Id": true, "Tier": true, "Timing-Bin": true, "Retry-Trailer": true}

func appHeaders(h http.Header) map[string][]string {
	out := map[string][]string{}
	for k, v := range h {
		if (strings.HasPrefix(k, "X-") && k != "X-Verif-Sid" && k != "X-Verif-Call" && k != "X-Verif-Seen") || appKeys[k] {
			out[k] = append([]string(nil), v...)
		}
	}
	return out
}

// unpadBin rewrites the values of -Bin keys as unpadded base64 of what `dec` decodes them to.
func unpadBin(h map[string][]string, dec func(string) ([]byte, error)) map[string][]string {
	for k, vs := range h {
		if !strings.HasSuffix(k, "-Bin") {
			continue
		}
		for i, v := range vs {
			if raw, err := dec(v); err == nil {
				vs[i] = refcodec.B64Encode(raw, false)
			} else {
				vs[i] = "undecodable:" + v
			}
		}
	}
	return h
}

func addAll(h http.Header, kvs []kv) {
	for _, e := range kvs {
		for _, v := range e.V {
			h.Add(e.K, v)
		}
	}
}

// sentinelErrs: on shared handlers, calls with the same outcome return the very same error VALUE (a package-level
// sentinel, as handlers do): the library may read it, never write to it.
var sentinelErrs sync.Map

func (st *e2eState) buildError() error {
	if !st.sc.Shared || st.sc.Out.Kind == "ok" || st.sc.Out.Kind == "badsend" {
		return st.newError()
	}
	key := fmt.Sprintf("%+v", st.sc.Out)
	if e, ok := sentinelErrs.Load(key); ok {
		return e.(error)
	}
	e, _ := sentinelErrs.LoadOrStore(key, st.newError())
	return e.(error)
}

func (st *e2eState) newError() error {
	o := st.sc.Out
	switch o.Kind {
	case "plain":
		return errors.New(msgClasses[o.Msg])
	case "err", "wrapped", "ctxwrap":
		cause := errors.New(msgClasses[o.Msg])
		if o.Kind == "ctxwrap" { // an already coded error whose cause happens to be a context error
			cause = fmt.Errorf("%s: %w", msgClasses[o.Msg], context.DeadlineExceeded)
		}
		e := connect.NewError(connect.Code(o.Code), cause)
		for i := 1; i <= o.Ndet; i++ {
			a, err := anypb.New(wrapperspb.String(detailText(i)))
			if err != nil {
				panic(err)
			}
			e.AddDetail(a)
		}
		if len(o.Meta) > 0 { // (an error without metadata keeps its nil map: Meta() allocates, i.e. writes to the value)
			addAll(e.Meta(), o.Meta)
		}
		if o.Kind == "wrapped" {
			return fmt.Errorf("outer context: %w", e)
		}
		return e
	}
	return nil
}

// lateError is an interceptor around a client-streaming handler that fails the call after the handler has
// returned its response (scenario out.after = 1).
type lateError struct{}

func (lateError) WrapUnary(next connect.UnaryFunc) connect.UnaryFunc { return next }
func (lateError) WrapStreamingClient(next connect.StreamingClientFunc) connect.StreamingClientFunc {
	return next
}
func (lateError) WrapStreamingHandler(next connect.StreamingHandlerFunc) connect.StreamingHandlerFunc {
	return func(ctx context.Context, conn connect.StreamingHandlerConn) error {
		err := next(ctx, conn)
		if st := stateOf(conn.RequestHeader()); err == nil && st != nil && st.sc.Kind == "client" && st.sc.Out.After == 1 {
			if late := st.buildError(); late != nil {
				return late
			}
		}
		return err
	}
}

// annotate does what an error-annotating interceptor would: it tags the error a call returned (also the one that
// reports the clean end of a stream) with the call's id. An error value belongs to the call that returned it: a tag
// left by another call means the library handed the same value to two calls.
func annotate(err error, sid string, foreign *bool) {
	var ce *connect.Error
	if !errors.As(err, &ce) {
		return
	}
	if seen := ce.Meta().Get("X-Verif-Seen"); seen != "" && seen != sid {
		*foreign = true
	}
	ce.Meta().Set("X-Verif-Seen", sid)
}

func (st *e2eState) payload(m msgSc) *BV {
	if m.Vlen == 0 {
		return &BV{}
	}
	rng := rand.New(rand.NewSource(int64(st.sc.Tid)*1000003 + int64(m.ID)))
	v := payloadFor(m.ID, m.Vlen, rng)
	st.table.Put(m.ID, v)
	return &BV{Value: v}
}

func (st *e2eState) sawRequest(hdr http.Header, spec connect.Spec, ids ...int) {
	st.mu.Lock()
	st.ran++
	st.hMsgs = append(st.hMsgs, ids...)
	st.hHdr = hdr.Clone()
	st.hSpec = spec
	st.mu.Unlock()
}

const e2eProc = "/verif.v1.Svc/Method"

var e2eHandlers sync.Map

func e2eHandler(sc *e2eScenario) *connect.Handler {
	key := fmt.Sprintf("%s|%v|%d", sc.Kind, sc.Hpools, sc.Hmin)
	if h, ok := e2eHandlers.Load(key); ok {
		return h.(*connect.Handler)
	}
	// every handler also carries a recovery hook: it must stay invisible as long as nothing panics (if it ever runs,
	// the call fails with this error instead of the scenario's outcome)
	opts := []connect.HandlerOption{connect.WithCompressMinBytes(sc.Hmin), connect.WithCodec(verifCodec{}),
		connect.WithRecover(func(_ context.Context, _ connect.Spec, _ http.Header, p any) error {
			return connect.NewError(connect.CodeDataLoss, fmt.Errorf("verif: the recovery hook ran without a panic: %v", p))
		})}
	for _, name := range sc.Hpools {
		if name == "gzip" { // registering the built-in name again moves it in the preference order
			opts = append(opts, connect.WithCompression(name, newGzipD, newGzipC))
			continue
		}
		opts = append(opts, connect.WithCompression(name, newRevD, newRevC))
	}
	var h *connect.Handler
	switch sc.Kind {
	case "unary":
		h = connect.NewUnaryHandler(e2eProc, func(_ context.Context, r *connect.Request[BV]) (*connect.Response[BV], error) {
			st := stateOf(r.Header())
			st.sawRequest(r.Header(), r.Spec(), st.table.ID(r.Msg.Value))
			if st.sc.Out.Kind == "badsend" {
				return connect.NewResponse(&BV{Value: poisonValue}), nil
			}
			if err := st.buildError(); err != nil {
				return nil, err
			}
			res := connect.NewResponse(st.payload(st.sc.Resp[0]))
			addAll(res.Header(), st.sc.RespHdr)
			addAll(res.Trailer(), st.sc.RespTrl)
			return res, nil
		}, opts...)
	case "client":
		h = connect.NewClientStreamHandler(e2eProc, func(_ context.Context, cs *connect.ClientStream[BV]) (*connect.Response[BV], error) {
			st := stateOf(cs.RequestHeader())
			var ids []int
			for cs.Receive() {
				ids = append(ids, st.table.ID(cs.Msg().Value))
			}
			st.sawRequest(cs.RequestHeader(), connect.Spec{}, ids...)
			if err := cs.Err(); err != nil {
				return nil, err
			}
			if st.sc.Out.Kind == "badsend" {
				return connect.NewResponse(&BV{Value: poisonValue}), nil
			}
			if err := st.buildError(); err != nil && st.sc.Out.After == 0 {
				return nil, err
			}
			res := connect.NewResponse(st.payload(st.sc.Resp[0]))
			addAll(res.Header(), st.sc.RespHdr)
			addAll(res.Trailer(), st.sc.RespTrl)
			return res, nil
		}, append(opts, connect.WithInterceptors(lateError{}))...)
	case "server":
		h = connect.NewServerStreamHandler(e2eProc, func(_ context.Context, r *connect.Request[BV], ss *connect.ServerStream[BV]) error {
			st := stateOf(r.Header())
			st.sawRequest(r.Header(), r.Spec(), st.table.ID(r.Msg.Value))
			return st.respond(ss.ResponseHeader(), ss.ResponseTrailer(), ss.Send)
		}, opts...)
	default:
		h = connect.NewBidiStreamHandler(e2eProc, func(_ context.Context, bs *connect.BidiStream[BV, BV]) error {
			st := stateOf(bs.RequestHeader())
			var ids []int
			if st.sc.Echo {
				addAll(bs.ResponseHeader(), st.sc.RespHdr)
				addAll(bs.ResponseTrailer(), st.sc.RespTrl)
				for {
					m, err := bs.Receive()
					if err != nil {
						st.sawRequest(bs.RequestHeader(), connect.Spec{}, ids...)
						if isEOF(err) {
							return nil
						}
						return err
					}
					ids = append(ids, st.table.ID(m.Value))
					if err := bs.Send(m); err != nil {
						return err
					}
				}
			}
			// the handler keeps every message it was given and looks at them only when the stream has ended: what
			// Receive returned stays intact while later messages arrive (BidiStream.Receive hands out a new message
			// each time)
			var kept []*BV
			look := func() {
				for _, m := range kept {
					ids = append(ids, st.table.ID(m.Value))
				}
			}
			for {
				m, err := bs.Receive()
				if err != nil {
					if !isEOF(err) {
						look()
						st.sawRequest(bs.RequestHeader(), connect.Spec{}, ids...)
						return err
					}
					break
				}
				kept = append(kept, m)
			}
			look()
			st.sawRequest(bs.RequestHeader(), connect.Spec{}, ids...)
			return st.respond(bs.ResponseHeader(), bs.ResponseTrailer(), bs.Send)
		}, opts...)
	}
	actual, _ := e2eHandlers.LoadOrStore(key, h)
	return actual.(*connect.Handler)
}

func (st *e2eState) respond(hdr, trl http.Header, send func(*BV) error) error {
	addAll(hdr, st.sc.RespHdr)
	addAll(trl, st.sc.RespTrl)
	if st.sc.Shared {
		trl.Set("X-Verif-Call", st.sid) // a per-call trailer: it must never surface in another call's error
	}
	n := len(st.sc.Resp)
	if st.sc.Out.Kind != "ok" && st.sc.Out.After < n {
		n = st.sc.Out.After
	}
	for i := 0; i < n; i++ {
		if err := send(st.payload(st.sc.Resp[i])); err != nil {
			return err
		}
	}
	if st.sc.Out.Kind == "badsend" {
		return send(&BV{Value: poisonValue}) // the codec fails: nothing of this message reaches the wire
	}
	return st.buildError()
}

// ---- running one scenario --------------------------------------------------------------------------

func e2eClientOpts(sc *e2eScenario) []connect.ClientOption {
	opts := clientProtoOpts(sc.Proto)
	if sc.Codec == "json" {
		opts = append(opts, connect.WithProtoJSON())
	}
	if sc.Codec == "verifc" {
		opts = append(opts, connect.WithCodec(verifCodec{}))
	}
	for _, name := range sc.Cacc {
		if name == "gzip" {
			opts = append(opts, connect.WithAcceptCompression(name, newGzipD, newGzipC))
			continue
		}
		opts = append(opts, connect.WithAcceptCompression(name, newRevD, newRevC))
	}
	if sc.Csend != "" && sc.Csend != "none" {
		opts = append(opts, connect.WithSendCompression(sc.Csend))
	}
	opts = append(opts, connect.WithCompressMinBytes(sc.Cmin))
	return opts
}

func decodeMsg(codec string, p []byte) ([]byte, bool) {
	// (verifc is protobuf binary under another name)
	if codec == "json" {
		var s string
		if err := json.Unmarshal(p, &s); err != nil {
			return nil, false
		}
		b, err := base64.StdEncoding.DecodeString(s)
		if err != nil {
			return nil, false
		}
		return b, true
	}
	return refcodec.UnwrapBytes(p)
}

func errView(err error) map[string]any {
	v := map[string]any{"code": codeOf(err), "msg": "", "details": []string{}, "meta": map[string][]string{}, "eof": isEOF(err)}
	var ce *connect.Error
	if errors.As(err, &ce) {
		v["msg"] = classOfMsg(ce.Message())
		ds := []string{}
		for _, d := range ce.Details() {
			if a, ok := d.(*anypb.Any); ok {
				ds = append(ds, classOfDetail(a.TypeUrl, a.Value))
			} else {
				ds = append(ds, "corrupt-detail")
			}
		}
		v["details"] = ds
		v["meta"] = appHeaders(ce.Meta())
	}
	return v
}

func sortedKV(m map[string][]string) map[string][]string { return m }

func runE2E(raw json.RawMessage, seed int64, rec *Rec) {
	var sc e2eScenario
	if err := json.Unmarshal(raw, &sc); err != nil {
		panic(err)
	}
	sid := fmt.Sprintf("%d-%d", seed, sc.Tid)
	st := &e2eState{sid: sid, sc: &sc, table: NewTable()}
	e2eStates.Store(sid, st)
	defer e2eStates.Delete(sid)

	// encoded sizes (what the compression threshold looks at) are measured with the reference codec
	esize := func(m msgSc) int {
		if sc.Codec == "json" {
			if m.Vlen == 0 {
				return 2
			}
			return 2 + base64.StdEncoding.EncodedLen(m.Vlen)
		}
		return len(refcodec.WrapBytes(make([]byte, m.Vlen)))
	}
	reqSizes, respSizes := []int{}, []int{}
	for _, m := range sc.Req {
		reqSizes = append(reqSizes, esize(m))
	}
	for _, m := range sc.Resp {
		respSizes = append(respSizes, esize(m))
	}
	var scm map[string]any
	_ = json.Unmarshal(raw, &scm)
	delete(scm, "tid")
	scm["reqsize"] = reqSizes
	scm["respsize"] = respSizes
	rec.Add(E("reset", "tid", sc.Tid, "sc", scm))

	tap := &Tap{}
	var inner http.Handler = e2eHandler(&sc)
	if sc.Peer == "server" {
		inner = peerServer(&sc, st)
	}
	h := tapped(inner, tap)
	var httpClient connect.HTTPClient
	url := "http://verif.test" + e2eProc
	if sc.Transport == "loop" {
		lb := newLoopback(h, sc.HTTP == 2)
		defer lb.Close()
		httpClient = lb.client
		url = lb.srv.URL + e2eProc
	} else {
		httpClient = &memTransport{h: h, major: sc.HTTP}
	}
	var client *connect.Client[BV, BV]
	if sc.Shared && sc.Transport != "loop" {
		// one client and one handler per configuration for the whole process; the tap of this exchange is
		// found through the scenario id header
		client = sharedClient(&sc)
		sharedTaps.Store(sid, tap)
		defer sharedTaps.Delete(sid)
	} else {
		client = connect.NewClient[BV, BV](httpClient, url, e2eClientOpts(&sc)...)
	}
	ctx := context.Background()

	cMsgs := []int{}
	var retained [][]byte // what user code was handed: must stay intact while and after other calls run
	var cerr error
	var chdr, ctrl http.Header
	setHdr := func(h http.Header) {
		h.Set("X-Verif-Sid", sid)
		addAll(h, sc.ReqHdr)
	}
	eofForeign := false
	var peerErr map[string]any
	peerOK := false
	kindSel := sc.Kind
	if sc.Peer == "client" {
		kindSel = "peer-client"
	}
	switch kindSel {
	case "peer-client":
		cMsgs, peerErr, peerOK, chdr, ctrl = peerClientCall(&sc, st, sid, httpClient, url)
	case "unary":
		req := connect.NewRequest(st.payload(sc.Req[0]))
		setHdr(req.Header())
		res, err := client.CallUnary(ctx, req)
		cerr = err
		if err == nil {
			retained = append(retained, res.Msg.Value)
			cMsgs = append(cMsgs, st.table.ID(res.Msg.Value))
			chdr, ctrl = res.Header(), res.Trailer()
		}
	case "client":
		cs := client.CallClientStream(ctx)
		setHdr(cs.RequestHeader())
		for _, m := range sc.Req {
			if err := cs.Send(st.payload(m)); err != nil {
				rec.Add(E("csend", "code", codeOf(err), "eof", isEOF(err)))
				break
			}
		}
		res, err := cs.CloseAndReceive()
		cerr = err
		if err == nil {
			retained = append(retained, res.Msg.Value)
			cMsgs = append(cMsgs, st.table.ID(res.Msg.Value))
			chdr, ctrl = res.Header(), res.Trailer()
		}
	case "server":
		req := connect.NewRequest(st.payload(sc.Req[0]))
		setHdr(req.Header())
		ss, err := client.CallServerStream(ctx, req)
		if err != nil {
			cerr = err
			break
		}
		var early http.Header
		if sc.Tid%2 == 0 {
			// user code that looks at the headers first: ResponseHeader blocks until they are there
			early = ss.ResponseHeader().Clone()
		}
		for ss.Receive() {
			retained = append(retained, append([]byte(nil), ss.Msg().Value...)) // Msg() is reused by the next Receive
			cMsgs = append(cMsgs, st.table.ID(ss.Msg().Value))
		}
		cerr = ss.Err()
		chdr, ctrl = ss.ResponseHeader(), ss.ResponseTrailer()
		if early != nil {
			chdr = early
		}
		_ = ss.Close()
		_ = ss.Close() // closing twice (a deferred Close after an explicit one) is ordinary user code
	default:
		bs := client.CallBidiStream(ctx)
		// every other echo scenario: the receiving goroutine is already inside Receive when the sending goroutine sets
		// the request headers and sends for the first time (the request must not leave before that)
		lateHdr := sc.Echo && sc.Tid%2 == 1
		if !lateHdr {
			setHdr(bs.RequestHeader())
		}
		if sc.Echo {
			var wg sync.WaitGroup
			wg.Add(1)
			go func() { // the sending goroutine
				defer wg.Done()
				if lateHdr {
					time.Sleep(5 * time.Millisecond)
					setHdr(bs.RequestHeader())
				}
				for _, m := range sc.Req {
					if err := bs.Send(st.payload(m)); err != nil {
						rec.Add(E("csend", "code", codeOf(err), "eof", isEOF(err)))
						break
					}
				}
				_ = bs.CloseRequest()
			}()
			for { // the receiving goroutine
				m, err := bs.Receive()
				if err != nil {
					annotate(err, sid, &eofForeign) // annotating an error a call returned is ordinary user code
					if !isEOF(err) {
						cerr = err
					}
					break
				}
				retained = append(retained, m.Value)
				cMsgs = append(cMsgs, st.table.ID(m.Value))
			}
			wg.Wait()
			chdr, ctrl = bs.ResponseHeader(), bs.ResponseTrailer()
			_ = bs.CloseResponse()
			_ = bs.CloseResponse()
			break
		}
		for _, m := range sc.Req {
			if err := bs.Send(st.payload(m)); err != nil {
				rec.Add(E("csend", "code", codeOf(err), "eof", isEOF(err)))
				break
			}
		}
		_ = bs.CloseRequest()
		var early http.Header
		if sc.Tid%2 == 0 {
			early = bs.ResponseHeader().Clone()
		}
		for {
			m, err := bs.Receive()
			if err != nil {
				annotate(err, sid, &eofForeign) // annotating an error a call returned is ordinary user code
				if !isEOF(err) {
					cerr = err
				}
				break
			}
			retained = append(retained, m.Value)
			cMsgs = append(cMsgs, st.table.ID(m.Value))
		}
		if sc.Tid%4 == 1 {
			// a loop that asks again after the end (ordinary user code): the metadata of the call does not change
			_, _ = bs.Receive()
			_, _ = bs.Receive()
		}
		chdr, ctrl = bs.ResponseHeader(), bs.ResponseTrailer()
		if early != nil {
			chdr = early
		}
		_ = bs.CloseResponse()
		_ = bs.CloseResponse()
	}
	earlyErr := errView(cerr)

	// the exchange is over once the handler returned (the tap is complete then)
	for i := 0; i < 20000; i++ {
		tap.mu.Lock()
		served := tap.Served
		tap.mu.Unlock()
		if served {
			break
		}
		time.Sleep(time.Millisecond)
	}

	// ---- the tapped request ----
	tap.mu.Lock()
	unary := sc.Kind == "unary" && sc.Proto == "connect"
	reqCT := tap.ReqHeader.Get("Content-Type")
	reqEnc := tap.ReqHeader.Get(encodingHeader(sc.Proto, unary))
	reqBody := append([]byte(nil), tap.ReqBody.Bytes()...)
	var reqFrames [][]int
	reqIDs := []int{}
	reqProblems := []string{}
	addReq := func(flag byte, p []byte) {
		reqFrames = append(reqFrames, []int{int(flag), len(p)})
		if flag&1 == 1 {
			var err error
			if p, err = refcodec.Decompress(reqEnc, p); err != nil {
				reqProblems = append(reqProblems, "request frame does not decompress: "+err.Error())
				return
			}
		}
		v, ok := decodeMsg(sc.Codec, p)
		if !ok {
			reqProblems = append(reqProblems, "request message does not decode")
			return
		}
		reqIDs = append(reqIDs, st.table.ID(v))
	}
	if unary {
		flag := byte(0)
		if reqEnc != "" && reqEnc != "identity" {
			flag = 1
		}
		if st.ran > 0 || len(reqBody) > 0 { // a refused request's body is never read
			addReq(flag, reqBody)
		}
	} else {
		frames, rest := refcodec.ParseEnvelopes(reqBody)
		if len(rest) > 0 {
			reqProblems = append(reqProblems, "trailing bytes in request body")
		}
		for _, f := range frames {
			if f.Flag&^1 != 0 {
				reqProblems = append(reqProblems, fmt.Sprintf("request frame with flags %#x", f.Flag))
				continue
			}
			addReq(f.Flag, f.Payload)
		}
	}
	reqAccept := tap.ReqHeader.Get(acceptEncodingHeader(sc.Proto, unary))
	reqHdrView := appHeaders(tap.ReqHeader)
	if sc.Peer == "client" {
		// the peer's freedoms are undone before the comparison: optional blanks in the list, padding of -Bin values
		reqAccept = strings.ReplaceAll(reqAccept, " ", "")
		if reqEnc == "identity" {
			reqEnc = "" // saying "identity" is saying nothing
		}
		reqHdrView = unpadBin(reqHdrView, func(v string) ([]byte, error) { return refcodec.B64Decode(v) })
	}
	rec.Add(E("req", "ctype", reqCT, "enc", reqEnc, "accept", reqAccept,
		"frames", nz2(reqFrames), "ids", reqIDs, "hdr", reqHdrView, "problems", reqProblems,
		"method", tap.ReqMethod, "te", tap.ReqHeader.Get("Te"), "served", tap.Served))

	// ---- what the handler's API yielded ----
	st.mu.Lock()
	rec.Add(E("hneg", "ran", st.ran))
	if st.ran > 0 {
		hview := appHeaders(st.hHdr)
		if sc.Peer == "client" {
			// user code reads binary headers through the library's helper
			hview = unpadBin(hview, connect.DecodeBinaryHeader)
		}
		rec.Add(E("hsaw", "ids", nz(st.hMsgs), "hdr", hview))
	}
	st.mu.Unlock()

	// ---- the tapped response, decoded by the reference codec ----
	d := refcodec.ParseResponse(sc.Proto, unary, reqCT, tap.Status, tap.RespHeader, tap.RespBody.Bytes(), tap.Trailer)
	respIDs := []int{}
	for _, p := range d.Msgs {
		v, ok := decodeMsg(sc.Codec, p)
		if !ok {
			d.Problems = append(d.Problems, "response message does not decode with codec "+sc.Codec)
			continue
		}
		respIDs = append(respIDs, st.table.ID(v))
	}
	flags := []int{}
	for _, f := range d.Flags {
		flags = append(flags, int(f))
	}
	if unary && tap.Status == 200 {
		// the unary Connect body has no envelope: report it as one pseudo-frame
		f := 0
		if d.Encoding != "" && d.Encoding != "identity" {
			f = 1
		}
		flags = []int{f}
	}
	rerr := map[string]any{"code": 0, "msg": "", "details": []string{}}
	if d.Err != nil {
		ds := []string{}
		for _, a := range d.Err.Details {
			ds = append(ds, classOfDetail(a.TypeURL, a.Value))
		}
		rerr = map[string]any{"code": d.Err.Code, "msg": classOfMsg(d.Err.Message), "details": ds}
	}
	problems := d.Problems
	if problems == nil {
		problems = []string{}
	}
	rec.Add(E("resp", "status", tap.Status, "ctype", tap.RespHeader.Get("Content-Type"), "enc", d.Encoding,
		"accept", tap.RespHeader.Get(acceptEncodingHeader(sc.Proto, unary)),
		"flags", flags, "lens", nz(d.Lens), "ids", respIDs, "err", rerr, "hdr", appHeaders(d.Header),
		"trl", appHeaders(d.Trailer), "problems", problems))
	tap.mu.Unlock()

	// ---- what the client's API yielded ----
	// look again at everything the client was handed, after the exchange is over (and, in shared mode, while
	// other calls are running): nothing may have changed under the application's feet
	lateIDs := []int{}
	for _, v := range retained {
		lateIDs = append(lateIDs, st.table.ID(v))
	}
	lateErr := errView(cerr)
	// whose response headers ended up in this call's error metadata?
	metaCall := "na"
	if eofForeign {
		metaCall = "foreign" // the end-of-stream error of this call carried another call's annotation
	}
	var lce *connect.Error
	if errors.As(cerr, &lce) && !eofForeign {
		switch v := lce.Meta().Get("X-Verif-Call"); v {
		case "":
			metaCall = "absent"
		case sid:
			metaCall = "own"
		default:
			metaCall = "foreign"
		}
	}
	// C13 "shared values stay intact": a sentinel error without metadata that the handler returned is still without a
	// metadata map -- the library reads the value, it does not write to it (not even an empty map)
	if sc.Shared && sc.Out.Kind == "err" && len(sc.Out.Meta) == 0 {
		var sentinel *connect.Error
		if errors.As(st.buildError(), &sentinel) && connect.VerifErrorMetaAllocated(sentinel) {
			metaCall = "sentinel-written"
		}
	}
	if sc.Peer == "client" {
		rec.Add(E("csaw", "ok", peerOK, "ids", cMsgs, "err", peerErr, "hdr", appHeaders(chdr), "trl", appHeaders(ctrl),
			"late_ids", cMsgs, "late_msg", peerErr["msg"], "meta_call", "na"))
		return
	}
	rec.Add(E("csaw", "ok", cerr == nil, "ids", cMsgs, "err", earlyErr,
		"hdr", appHeaders(chdr), "trl", appHeaders(ctrl), "late_ids", lateIDs, "late_msg", lateErr["msg"], "meta_call", metaCall))
}

func nz(a []int) []int {
	if a == nil {
		return []int{}
	}
	return a
}

func nz2(a [][]int) [][]int {
	if a == nil {
		return [][]int{}
	}
	return a
}

var _ = sort.Strings

// ---- shared clients (C13): one client per configuration, used by all scenarios concurrently ---------

var (
	sharedClients sync.Map // config key -> *connect.Client[BV, BV]
	sharedTaps    sync.Map // scenario id -> *Tap
)

// sharedDispatch serves every shared exchange: the scenario (handler configuration, tap) is found by id.
var sharedDispatch = http.HandlerFunc(func(w http.ResponseWriter, r *http.Request) {
	sid := r.Header.Get("X-Verif-Sid")
	st := stateOf(r.Header)
	t, ok := sharedTaps.Load(sid)
	if st == nil || !ok {
		http.Error(w, "verif: unknown scenario", http.StatusTeapot)
		return
	}
	var inner http.Handler = e2eHandler(st.sc)
	if st.sc.Peer == "server" {
		inner = peerServer(st.sc, st)
	}
	tapped(inner, t.(*Tap)).ServeHTTP(w, r)
})

func sharedClient(sc *e2eScenario) *connect.Client[BV, BV] {
	key := fmt.Sprintf("%s|%s|%s|%d|%v|%d", sc.Proto, sc.Codec, sc.Csend, sc.Cmin, sc.Cacc, sc.HTTP)
	if c, ok := sharedClients.Load(key); ok {
		return c.(*connect.Client[BV, BV])
	}
	c := connect.NewClient[BV, BV](&memTransport{h: sharedDispatch, major: sc.HTTP}, "http://verif.test"+e2eProc, e2eClientOpts(sc)...)
	actual, _ := sharedClients.LoadOrStore(key, c)
	return actual.(*connect.Client[BV, BV])
}

// ---- a conformant foreign server built on the reference codec (C05, converse direction) ----------------

func peerServer(sc *e2eScenario, st *e2eState) http.Handler {
	return http.HandlerFunc(func(w http.ResponseWriter, r *http.Request) {
		unary := sc.Kind == "unary" && sc.Proto == "connect"
		reqCT := r.Header.Get("Content-Type")
		enc := r.Header.Get(encodingHeader(sc.Proto, unary))
		have := map[string]bool{"gzip": true}
		for _, n := range sc.Hpools {
			have[n] = true
		}
		choices := refcodec.Choices{}
		if sc.Choices != nil {
			choices = *sc.Choices
		}
		write := func(app refcodec.AppResponse) {
			status, hdr, body, trl := refcodec.EncodeResponse(sc.Proto, unary, reqCT, app, choices)
			names := append([]string{}, sc.Hpools...)
			accept := "gzip"
			for _, n := range names {
				if n != "gzip" {
					accept = n + "," + accept
				}
			}
			hdr.Set(acceptEncodingHeader(sc.Proto, unary), accept)
			for k, v := range hdr {
				w.Header()[k] = v
			}
			for k, v := range trl {
				for _, x := range v {
					w.Header().Add(http.TrailerPrefix+k, x)
				}
			}
			w.WriteHeader(status)
			_, _ = w.Write(body)
		}
		if enc != "" && enc != "identity" && !have[enc] {
			_, _ = io.Copy(io.Discard, r.Body)
			write(refcodec.AppResponse{Err: &refcodec.RErr{Code: 12, Message: "unknown compression"}})
			return
		}
		// the response algorithm: the request's, else the client's first choice this server has
		choices.Encoding = ""
		if enc != "" && enc != "identity" {
			choices.Encoding = enc
		} else {
			for _, n := range strings.FieldsFunc(r.Header.Get(acceptEncodingHeader(sc.Proto, unary)), func(c rune) bool { return c == ',' || c == ' ' }) {
				if have[n] {
					choices.Encoding = n
					break
				}
			}
		}
		raw, _ := io.ReadAll(r.Body)
		var ids []int
		decode := func(flag byte, p []byte) {
			if flag&1 == 1 {
				p, _ = refcodec.Decompress(enc, p)
			}
			if v, ok := decodeMsg(sc.Codec, p); ok {
				ids = append(ids, st.table.ID(v))
			} else {
				ids = append(ids, -1)
			}
		}
		if unary {
			f := byte(0)
			if enc != "" && enc != "identity" {
				f = 1
			}
			decode(f, raw)
		} else {
			frames, _ := refcodec.ParseEnvelopes(raw)
			for _, f := range frames {
				decode(f.Flag, f.Payload)
			}
		}
		st.sawRequest(r.Header, connect.Spec{}, ids...)
		app := refcodec.AppResponse{Header: http.Header{}, Trailer: http.Header{}, ErrMeta: http.Header{}}
		app.Header.Set("X-Verif-Call", r.Header.Get("X-Verif-Sid")) // lets the client tell its own response from another call's
		streamy := sc.Kind == "server" || sc.Kind == "bidi"
		failing := sc.Out.Kind != "ok"
		if !failing || streamy {
			addAll(app.Header, sc.RespHdr)
			addAll(app.Trailer, sc.RespTrl)
		}
		n := len(sc.Resp)
		if failing {
			if streamy && sc.Out.After < n {
				n = sc.Out.After
			} else if !streamy {
				n = 0
			}
		}
		for i := 0; i < n; i++ {
			app.Msgs = append(app.Msgs, encodeBV(sc.Codec, st.payload(sc.Resp[i]).Value))
		}
		if failing {
			e := &refcodec.RErr{Code: sc.Out.Code, Message: msgClasses[sc.Out.Msg]}
			if sc.Out.Kind == "plain" {
				e.Code = 2
			}
			for i := 1; i <= sc.Out.Ndet && sc.Out.Kind != "plain"; i++ {
				e.Details = append(e.Details, refcodec.Any{TypeURL: "type.googleapis.com/google.protobuf.StringValue",
					Value: refcodec.WrapBytes([]byte(detailText(i)))})
			}
			if sc.Out.Kind == "ctxwrap" {
				e.Message += ": context deadline exceeded"
			}
			addAll(app.ErrMeta, sc.Out.Meta)
			app.Err = e
		}
		write(app)
	})
}
