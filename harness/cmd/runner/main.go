// Command runner executes TLC-generated abstract scenarios on the real
// connect-go (built from /repo's working tree with -tags verif) and records,
// for each, an NDJSON trace in the vocabulary of the TLA+ specification.
//
// The runner contains no expectations: verdicts come from TLC validating the
// recorded traces against the trace specifications in /verif/spec.
package main

import (
	"bufio"
	"encoding/json"
	"flag"
	"fmt"
	"os"
	"runtime"
	"runtime/debug"
	"runtime/pprof"
	"sort"
	"sync"
	"time"
)

// Event is one trace line.  "ev" is always written first.
type Event struct {
	Ev string
	KV map[string]any
}

func E(ev string, kv ...any) Event {
	m := make(map[string]any, len(kv)/2)
	for i := 0; i+1 < len(kv); i += 2 {
		m[kv[i].(string)] = kv[i+1]
	}
	return Event{Ev: ev, KV: m}
}

func (e Event) MarshalJSON() ([]byte, error) {
	keys := make([]string, 0, len(e.KV))
	for k := range e.KV {
		keys = append(keys, k)
	}
	sort.Strings(keys)
	out := []byte(`{"ev":`)
	b, _ := json.Marshal(e.Ev)
	out = append(out, b...)
	for _, k := range keys {
		kb, _ := json.Marshal(k)
		vb, err := json.Marshal(e.KV[k])
		if err != nil {
			return nil, err
		}
		out = append(out, ',')
		out = append(out, kb...)
		out = append(out, ':')
		out = append(out, vb...)
	}
	return append(out, '}'), nil
}

// Rec collects the events of one trace; safe for concurrent use.
type Rec struct {
	mu  sync.Mutex
	evs []Event
}

func (r *Rec) Add(e Event) {
	r.mu.Lock()
	r.evs = append(r.evs, e)
	r.mu.Unlock()
}

func (r *Rec) Events() []Event {
	r.mu.Lock()
	defer r.mu.Unlock()
	return append([]Event(nil), r.evs...)
}

type familyFunc func(raw json.RawMessage, seed int64, rec *Rec)

var families = map[string]familyFunc{}

var (
	flagFamily  = flag.String("family", "", "scenario family")
	flagIn      = flag.String("in", "", "scenario file (JSON lines)")
	flagOut     = flag.String("out", "", "trace file (NDJSON)")
	flagSeed    = flag.Int64("seed", 1, "seed for concretisation")
	flagWorkers = flag.Int("workers", runtime.NumCPU(), "parallel scenarios")
	flagHang    = flag.Duration("hang", 120*time.Second, "watchdog per scenario")
	flagProf    = flag.String("cpuprofile", "", "write a CPU profile")
)

func main() {
	flag.Parse()
	if *flagProf != "" {
		f, _ := os.Create(*flagProf)
		_ = pprof.StartCPUProfile(f)
		defer pprof.StopCPUProfile()
	}
	fn, ok := families[*flagFamily]
	if !ok {
		fmt.Fprintf(os.Stderr, "unknown family %q\n", *flagFamily)
		os.Exit(2)
	}
	in, err := os.Open(*flagIn)
	if err != nil {
		fmt.Fprintln(os.Stderr, err)
		os.Exit(2)
	}
	var scen []json.RawMessage
	sc := bufio.NewScanner(in)
	sc.Buffer(make([]byte, 1<<20), 1<<28)
	for sc.Scan() {
		if len(sc.Bytes()) == 0 {
			continue
		}
		scen = append(scen, append(json.RawMessage(nil), sc.Bytes()...))
	}
	in.Close()
	results := make([][]Event, len(scen))
	var wg sync.WaitGroup
	jobs := make(chan int)
	hangs := 0
	var hmu sync.Mutex
	for w := 0; w < *flagWorkers; w++ {
		wg.Add(1)
		go func() {
			defer wg.Done()
			for i := range jobs {
				rec := &Rec{}
				done := make(chan struct{})
				go func() {
					defer close(done)
					defer func() {
						if p := recover(); p != nil {
							rec.Add(E("panic", "value", fmt.Sprint(p), "stack", string(debug.Stack())))
						}
					}()
					fn(scen[i], *flagSeed+int64(i)*7919, rec)
				}()
				timer := time.NewTimer(*flagHang)
				select {
				case <-done:
					timer.Stop()
				case <-timer.C:
					rec.Add(E("hang", "after_s", flagHang.Seconds(), "stacks", allStacks()))
					hmu.Lock()
					hangs++
					hmu.Unlock()
				}
				results[i] = rec.Events()
			}
		}()
	}
	for i := range scen {
		jobs <- i
	}
	close(jobs)
	wg.Wait()
	out, err := os.Create(*flagOut)
	if err != nil {
		fmt.Fprintln(os.Stderr, err)
		os.Exit(2)
	}
	bw := bufio.NewWriterSize(out, 1<<20)
	nev := 0
	for i, evs := range results {
		if len(evs) == 0 || evs[0].Ev != "reset" {
			fmt.Fprintf(os.Stderr, "scenario %d produced no reset event\n", i+1)
			os.Exit(2)
		}
		for _, e := range evs {
			b, err := json.Marshal(e)
			if err != nil {
				fmt.Fprintln(os.Stderr, "marshal:", err)
				os.Exit(2)
			}
			bw.Write(b)
			bw.WriteByte('\n')
			nev++
		}
	}
	bw.Flush()
	out.Close()
	fmt.Fprintf(os.Stderr, "runner: %d scenarios, %d events, %d hangs\n", len(scen), nev, hangs)
}

func allStacks() string {
	buf := make([]byte, 1<<16)
	n := runtime.Stack(buf, true)
	return string(buf[:n])
}
