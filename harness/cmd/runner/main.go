// Command runner executes TLC-generated abstract scenarios on the real
// connect-go (built from /repo's working tree with -tags verif) and records,
// for each, an NDJSON trace in the vocabulary of the TLA+ specification.
//
// The runner contains no expectations: verdicts come from TLC validating the
// recorded traces against the trace specifications in /verif/spec.
package main

import (
	"bufio"
	"bytes"
	"encoding/json"
	"flag"
	"fmt"
	"os"
	"runtime"
	"runtime/debug"
	"runtime/pprof"
	"sort"
	"sync"
	"time"

	connect "github.com/bufbuild/connect-go"
)

// Event is one trace line.  "ev" is always written first.
type Event struct {
	Ev string
	KV map[string]any
}

func E(ev string, kv ...any) Event {
	m := make(map[string]any, len(kv)/2)
	for i := 0; i+1 < len(kv); i += 2 {
		m[kv[i].(string)] = kv[i+1]
	}
	return Event{Ev: ev, KV: m}
}

func (e Event) MarshalJSON() ([]byte, error) {
	keys := make([]string, 0, len(e.KV))
	for k := range e.KV {
		keys = append(keys, k)
	}
	sort.Strings(keys)
	out := []byte(`{"ev":`)
	b, _ := json.Marshal(e.Ev)
	out = append(out, b...)
	for _, k := range keys {
		kb, _ := json.Marshal(k)
		vb, err := json.Marshal(e.KV[k])
		if err != nil {
			return nil, err
		}
		out = append(out, ',')
		out = append(out, kb...)
		out = append(out, ':')
		out = append(out, vb...)
	}
	return append(out, '}'), nil
}

// Rec collects the events of one trace; safe for concurrent use.
type Rec struct {
	mu  sync.Mutex
	evs []Event
}

func (r *Rec) Add(e Event) {
	r.mu.Lock()
	r.evs = append(r.evs, e)
	r.mu.Unlock()
}

func (r *Rec) Events() []Event {
	r.mu.Lock()
	defer r.mu.Unlock()
	return append([]Event(nil), r.evs...)
}

type familyFunc func(raw json.RawMessage, seed int64, rec *Rec)

var families = map[string]familyFunc{}

var (
	flagFamily  = flag.String("family", "", "scenario family")
	flagIn      = flag.String("in", "", "scenario file (JSON lines)")
	flagOut     = flag.String("out", "", "trace file (NDJSON)")
	flagSeed    = flag.Int64("seed", 1, "seed for concretisation")
	flagWorkers = flag.Int("workers", runtime.NumCPU(), "parallel scenarios")
	flagHang    = flag.Duration("hang", 120*time.Second, "watchdog per scenario")
	flagProf    = flag.String("cpuprofile", "", "write a CPU profile")
	flagPool    = flag.String("pooltrace", "", "record buffer pool Get/Put events (verif hooks) into this NDJSON file")
	flagPoison  = flag.Bool("poison", true, "overwrite buffers returned to the pool (verif hook)")
)

func main() {
	flag.Parse()
	if *flagProf != "" {
		f, _ := os.Create(*flagProf)
		_ = pprof.StartCPUProfile(f)
		defer pprof.StopCPUProfile()
	}
	connect.VerifPoolPoison = *flagPoison
	if *flagPool != "" {
		installPoolRecorder()
	}
	fn, ok := families[*flagFamily]
	if !ok {
		fmt.Fprintf(os.Stderr, "unknown family %q\n", *flagFamily)
		os.Exit(2)
	}
	in, err := os.Open(*flagIn)
	if err != nil {
		fmt.Fprintln(os.Stderr, err)
		os.Exit(2)
	}
	var scen []json.RawMessage
	sc := bufio.NewScanner(in)
	sc.Buffer(make([]byte, 1<<20), 1<<28)
	for sc.Scan() {
		if len(sc.Bytes()) == 0 {
			continue
		}
		scen = append(scen, append(json.RawMessage(nil), sc.Bytes()...))
	}
	in.Close()
	results := make([][]Event, len(scen))
	var wg sync.WaitGroup
	jobs := make(chan int)
	hangs := 0
	var hmu sync.Mutex
	for w := 0; w < *flagWorkers; w++ {
		wg.Add(1)
		go func() {
			defer wg.Done()
			for i := range jobs {
				rec := &Rec{}
				done := make(chan struct{})
				go func() {
					defer close(done)
					defer func() {
						if p := recover(); p != nil {
							rec.Add(E("panic", "value", fmt.Sprint(p), "stack", string(debug.Stack())))
						}
					}()
					fn(scen[i], *flagSeed+int64(i)*7919, rec)
				}()
				timer := time.NewTimer(*flagHang)
				select {
				case <-done:
					timer.Stop()
				case <-timer.C:
					rec.Add(E("hang", "after_s", flagHang.Seconds(), "stacks", allStacks()))
					hmu.Lock()
					hangs++
					hmu.Unlock()
				}
				results[i] = rec.Events()
			}
		}()
	}
	// a hung scenario leaves its goroutines behind (they may spin): after a few of them the rest of the run would
	// only be slower and say nothing new -- stop feeding; the hang events recorded so far are the verdict
	const maxHangs = 8
	stopped := false
	for i := range scen {
		hmu.Lock()
		stop := hangs >= maxHangs
		hmu.Unlock()
		if stop {
			stopped = true
			break
		}
		jobs <- i
	}
	close(jobs)
	wg.Wait()
	out, err := os.Create(*flagOut)
	if err != nil {
		fmt.Fprintln(os.Stderr, err)
		os.Exit(2)
	}
	bw := bufio.NewWriterSize(out, 1<<20)
	nev := 0
	for i, evs := range results {
		if stopped && len(evs) == 0 {
			continue // not run
		}
		if len(evs) == 0 || evs[0].Ev != "reset" {
			fmt.Fprintf(os.Stderr, "scenario %d produced no reset event\n", i+1)
			os.Exit(2)
		}
		for _, e := range evs {
			b, err := json.Marshal(e)
			if err != nil {
				fmt.Fprintln(os.Stderr, "marshal:", err)
				os.Exit(2)
			}
			bw.Write(b)
			bw.WriteByte('\n')
			nev++
		}
	}
	bw.Flush()
	out.Close()
	if *flagPool != "" {
		if err := writePoolTrace(*flagPool); err != nil {
			fmt.Fprintln(os.Stderr, err)
			os.Exit(2)
		}
	}
	fmt.Fprintf(os.Stderr, "runner: %d scenarios, %d events, %d hangs\n", len(scen), nev, hangs)
}

func allStacks() string {
	buf := make([]byte, 1<<16)
	n := runtime.Stack(buf, true)
	return string(buf[:n])
}

// ---- buffer pool recorder (verif hooks) ---------------------------------------------------------------

type poolEvent struct {
	get       bool
	pool, buf int
}

var poolRec struct {
	mu     sync.Mutex
	pools  map[any]int
	bufs   map[any]int // buffers, compressors, decompressors; also keeps each alive, so that an address is never reused
	events []poolEvent
}

func installPoolRecorder() {
	poolRec.pools = map[any]int{}
	poolRec.bufs = map[any]int{}
	note := func(get bool, pool any, object any) {
		poolRec.mu.Lock()
		p, ok := poolRec.pools[pool]
		if !ok {
			p = len(poolRec.pools) + 1
			poolRec.pools[pool] = p
		}
		b, ok := poolRec.bufs[object]
		if !ok {
			b = len(poolRec.bufs) + 1
			poolRec.bufs[object] = b
		}
		poolRec.events = append(poolRec.events, poolEvent{get, p, b})
		poolRec.mu.Unlock()
	}
	connect.VerifPoolHook = func(get bool, pool any, buffer *bytes.Buffer) { note(get, pool, buffer) }
	// compressors and decompressors are pooled objects too (all implementations in use are pointers)
	connect.VerifCodecPoolHook = func(get bool, pool any, object any) { note(get, pool, object) }
}

func writePoolTrace(path string) error {
	f, err := os.Create(path)
	if err != nil {
		return err
	}
	bw := bufio.NewWriterSize(f, 1<<20)
	// the ownership rule is per buffer, so the events are written as independent traces, one per group of
	// buffers (keeps the specification's sets small)
	const groups = 256
	poolRec.mu.Lock()
	for g := 0; g < groups; g++ {
		fmt.Fprintf(bw, "{\"ev\":\"reset\",\"tid\":%d,\"sc\":{\"group\":%d}}\n", g+1, g)
		for _, e := range poolRec.events {
			if e.buf%groups != g {
				continue
			}
			name := "put"
			if e.get {
				name = "get"
			}
			fmt.Fprintf(bw, "{\"ev\":%q,\"pool\":%d,\"buf\":%d}\n", name, e.pool, e.buf)
		}
	}
	poolRec.mu.Unlock()
	if err := bw.Flush(); err != nil {
		return err
	}
	return f.Close()
}
