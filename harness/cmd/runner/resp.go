package main

import (
	"bytes"
	"encoding/json"
	"io"
	"math/rand"
	"net/http"
	"strings"
	"sync/atomic"

	connect "github.com/bufbuild/connect-go"
	"github.com/bufbuild/connect-go/verifharness/refcodec"
)

// Family "resp": the real client is given an arbitrary, crafted *http.Response (C06).
// Specification: spec/Resp.tla, trace specification spec/TraceResp.tla.

type respScenario struct {
	Tid      int    `json:"tid"`
	Proto    string `json:"proto"`
	Kind     string `json:"kind"`
	Status   int    `json:"status"`
	Ctype    string `json:"ctype"`
	Enc      string `json:"enc"`
	Hstatus  string `json:"hstatus"`
	Hdetails string `json:"hdetails"`
	Tstatus  string `json:"tstatus"`
	Tdetails string `json:"tdetails"`
	Cerr     string `json:"cerr"`
	Body     string `json:"body"`
	Casing   string `json:"casing"`
	Fuzz     int    `json:"fuzz"` // > 0: random bytes of this many bytes replace the body / header values
	Gmsg     string `json:"gmsg"` // class of the grpc-message text accompanying a non-zero status
}

func init() { families["resp"] = runResp }

func statusValue(class string) (string, bool) {
	switch class {
	case "0":
		return "0", true
	case "5":
		return "5", true
	case "00":
		return "00", true
	case "17":
		return "17", true
	case "abc":
		return "abc", true
	case "neg":
		return "-1", true
	case "huge":
		return "99999999999999999999", true
	case "wrap": // a multiple of 2^32: zero to whoever truncates it to 32 bits
		return "4294967296", true
	case "wrap5": // 2^32 + 5
		return "4294967301", true
	}
	return "", false
}

func detailsValue(class string) (string, bool) {
	switch class {
	case "valid":
		return refcodec.B64Encode(refcodec.MarshalStatus(refcodec.Status{Code: 5, Message: "nf"}), false), true
	case "code0":
		return refcodec.B64Encode(refcodec.MarshalStatus(refcodec.Status{Code: 0, Message: "zero"}), true), true
	case "badb64":
		return "!!!not-base64!!!", true
	case "badproto":
		return refcodec.B64Encode([]byte{0xFF, 0xFF, 0xFF, 0x01}, false), true
	}
	return "", false
}

func casingOf(key, casing string) string {
	switch casing {
	case "lower":
		return strings.ToLower(key)
	case "upper":
		return strings.ToUpper(key)
	}
	return key
}

func connectErrJSON(class string) string {
	switch class {
	case "valid":
		return `{"code":"not_found","message":"nf"}`
	case "nocode":
		return `{"message":"Forbidden"}`
	case "code_0":
		return `{"code":"code_0","message":"zero"}`
	case "code99":
		return `{"code":"code_99","message":"ninety-nine"}`
	}
	return ""
}

// grpcMessage: the (possibly malformed) percent-encoded text sent as grpc-message.
func grpcMessage(class string) string {
	switch class {
	case "badpct1":
		return "quota 100%25 used, retry at 50%!" // an escape cut short at the very end
	case "badpct2":
		return "%41%4"
	case "badpct3":
		return "x%zz%"
	}
	return "nf"
}

type closeCounter struct {
	io.Reader
	n *int64
}

func (c closeCounter) Close() error { atomic.AddInt64(c.n, 1); return nil }

// zeros: an "endless" tail of a response body (64 MiB) that counts what is read of it.
type zeros struct {
	left int64
	read *int64
}

func (z *zeros) Read(p []byte) (int, error) {
	if z.left <= 0 {
		return 0, io.EOF
	}
	n := int64(len(p))
	if n > z.left {
		n = z.left
	}
	for i := int64(0); i < n; i++ {
		p[i] = 0
	}
	z.left -= n
	atomic.AddInt64(z.read, n)
	return int(n), nil
}

func respBody(class string, body []byte, drained *int64) io.Reader {
	if class == "flood" {
		return io.MultiReader(bytes.NewReader(body), &zeros{left: 64 << 20, read: drained})
	}
	return bytes.NewReader(body)
}

func runResp(raw json.RawMessage, seed int64, rec *Rec) {
	var s respScenario
	if err := json.Unmarshal(raw, &s); err != nil {
		panic(err)
	}
	rng := rand.New(rand.NewSource(seed))
	var scm map[string]any
	_ = json.Unmarshal(raw, &scm)
	delete(scm, "tid")
	scm["seed"] = seed
	rec.Add(E("reset", "tid", s.Tid, "sc", scm))

	table := NewTable()
	m1 := payloadFor(1, 4, rng)
	m2 := payloadFor(2, 6, rng)
	table.Put(1, m1)
	table.Put(2, m2)
	unaryConnect := s.Proto == "connect" && s.Kind == "unary"

	// ---- body ----
	var body []byte
	hdr := http.Header{}
	trailer := http.Header{}
	switch {
	case s.Status != 200 && unaryConnect && s.Cerr != "none":
		if s.Cerr == "notjson" {
			body = []byte("<html>teapot</html>")
		} else {
			body = []byte(connectErrJSON(s.Cerr))
		}
	case unaryConnect:
		switch s.Body {
		case "good", "noterm", "twomsgs":
			body = marshalBV(m1)
		case "garbage":
			body = []byte{0xFF, 0x00, 0x00, 0x10, 0x00, 0xAB, 0xCD}
		}
	default:
		switch s.Body {
		case "good", "noterm":
			body = refcodec.Envelope(0, marshalBV(m1))
		case "twomsgs":
			body = append(refcodec.Envelope(0, marshalBV(m1)), refcodec.Envelope(0, marshalBV(m2))...)
		case "garbage":
			body = []byte{0xFF, 0x00, 0x00, 0x10, 0x00, 0xAB, 0xCD}
		case "flood": // a message the client cannot read (compressed flag, no encoding named), then data without end
			body = refcodec.Envelope(1, refcodec.Gzip(marshalBV(m1)))
		}
		if s.Body == "good" || s.Body == "nomsg" || s.Body == "twomsgs" {
			key := casingOf("X-Meta", s.Casing)
			switch s.Proto {
			case "connect":
				var end string
				meta := `"metadata":{"` + key + `":["mv"]}`
				if s.Casing == "both" { // one field spelled in two casings: the same field for HTTP
					meta = `"metadata":{"X-Meta":["mv"],"x-meta":["mv2"]}`
				}
				switch s.Cerr {
				case "none":
					end = "{" + meta + "}"
				case "notjson":
					end = "{x"
				default:
					end = `{"error":` + connectErrJSON(s.Cerr) + "," + meta + "}"
				}
				body = append(body, refcodec.Envelope(2, []byte(end))...)
			case "grpcweb":
				var sb strings.Builder
				if v, ok := statusValue(s.Tstatus); ok {
					sb.WriteString(casingOf("Grpc-Status", s.Casing) + ": " + v + "\r\n")
					if s.Tstatus == "5" {
						sb.WriteString(casingOf("Grpc-Message", s.Casing) + ": " + grpcMessage(s.Gmsg) + "\r\n")
					}
				}
				if v, ok := detailsValue(s.Tdetails); ok {
					sb.WriteString(casingOf("Grpc-Status-Details-Bin", s.Casing) + ": " + v + "\r\n")
				}
				sb.WriteString(key + ": mv\r\n")
				if s.Casing == "both" {
					sb.WriteString("x-meta: mv2\r\n")
				}
				body = append(body, refcodec.Envelope(0x80, []byte(sb.String()))...)
			}
		}
		if s.Proto == "grpc" { // HTTP trailers exist whatever the body looks like
			if v, ok := statusValue(s.Tstatus); ok {
				trailer.Set("Grpc-Status", v)
				if s.Tstatus == "5" {
					trailer.Set("Grpc-Message", grpcMessage(s.Gmsg))
				}
			}
			if v, ok := detailsValue(s.Tdetails); ok {
				trailer.Set("Grpc-Status-Details-Bin", v)
			}
			trailer.Set("X-Meta", "mv")
			if s.Casing == "both" {
				trailer.Add("X-Meta", "mv2")
			}
		}
	}
	if s.Fuzz > 0 {
		body = make([]byte, s.Fuzz)
		rng.Read(body)
	}
	if v, ok := statusValue(s.Hstatus); ok {
		hdr.Set("Grpc-Status", v)
		if s.Hstatus == "5" {
			hdr.Set("Grpc-Message", grpcMessage(s.Gmsg))
		}
	}
	if v, ok := detailsValue(s.Hdetails); ok {
		hdr.Set("Grpc-Status-Details-Bin", v)
	}
	switch s.Enc {
	case "gzip":
		hdr.Set(encodingHeader(s.Proto, unaryConnect), "gzip")
		if unaryConnect && s.Status == 200 && len(body) > 0 && s.Fuzz == 0 && s.Body != "garbage" {
			body = refcodec.Gzip(body) // the unary Connect body is compressed as a whole
		}
	case "unknown":
		hdr.Set(encodingHeader(s.Proto, unaryConnect), "zstd-verif")
	}

	var closes, drained int64
	fake := &fakeHTTP{}
	fake.respond = func(req *http.Request) (*http.Response, error) {
		switch s.Ctype {
		case "match":
			hdr.Set("Content-Type", req.Header.Get("Content-Type"))
		case "other":
			if s.Proto == "connect" {
				hdr.Set("Content-Type", "application/grpc+proto")
			} else {
				hdr.Set("Content-Type", "application/connect+proto")
			}
		case "garbage":
			hdr.Set("Content-Type", "text/html; charset=utf-8")
		}
		if s.Status != 200 && unaryConnect && s.Cerr != "none" && s.Cerr != "notjson" && s.Ctype == "match" {
			hdr.Set("Content-Type", "application/json")
		}
		return &http.Response{StatusCode: s.Status, Status: statusLine(s.Status), ProtoMajor: 2, Header: hdr,
			Trailer: trailer, Body: closeCounter{respBody(s.Body, body, &drained), &closes}, Request: req}, nil
	}
	copts := clientProtoOpts(s.Proto)
	if s.Fuzz > 0 {
		// random prefixes declare lengths up to 4 GiB; a read limit keeps the harness' memory bounded
		copts = append(copts, connect.WithReadMaxBytes(1<<20))
	}
	client := connect.NewClient[BV, BV](fake, "http://verif.test/verif.v1.Svc/Method", copts...)
	n := 0
	var cerr error
	var trl http.Header
	switch s.Kind {
	case "unary":
		res, err := client.CallUnary(bg(), connect.NewRequest(&BV{Value: []byte{9}}))
		cerr = err
		if err == nil {
			if table.ID(res.Msg.Value) == 1 || len(res.Msg.Value) == 0 {
				n = 1
			}
			trl = res.Trailer()
		}
	case "client":
		cs := client.CallClientStream(bg())
		_ = cs.Send(&BV{Value: []byte{9}})
		res, err := cs.CloseAndReceive()
		cerr = err
		if err == nil {
			n = 1
			trl = res.Trailer()
		}
	case "server":
		ss, err := client.CallServerStream(bg(), connect.NewRequest(&BV{Value: []byte{9}}))
		if err != nil {
			cerr = err
			break
		}
		for ss.Receive() {
			if id := table.ID(ss.Msg().Value); id == n+1 {
				n++
			} else {
				n = -100
			}
		}
		cerr = ss.Err()
		trl = ss.ResponseTrailer()
		_ = ss.Close()
	default:
		bs := client.CallBidiStream(bg())
		_ = bs.Send(&BV{Value: []byte{9}})
		_ = bs.CloseRequest()
		for {
			m, err := bs.Receive()
			if err != nil {
				if !isEOF(err) {
					cerr = err
				}
				break
			}
			if id := table.ID(m.Value); id == n+1 {
				n++
			} else {
				n = -100
			}
		}
		trl = bs.ResponseTrailer()
		_ = bs.CloseResponse()
	}
	fake.wg.Wait()
	lookup := "miss"
	found := func(h http.Header) bool {
		vs := h.Values("X-Meta")
		if s.Casing == "both" { // every value, whatever the spelling of its key (order between spellings is open)
			return len(vs) == 2 && ((vs[0] == "mv" && vs[1] == "mv2") || (vs[0] == "mv2" && vs[1] == "mv"))
		}
		return len(vs) == 1 && vs[0] == "mv"
	}
	if cerr != nil {
		var ce *connect.Error
		if asConnect(cerr, &ce) && found(ce.Meta()) {
			lookup = "hit"
		}
	}
	if trl != nil && found(trl) {
		lookup = "hit"
	}
	rec.Add(E("done", "ok", cerr == nil, "code", codeOf(cerr), "n", n, "lookup", lookup, "closed", atomic.LoadInt64(&closes),
		"drained_kb", atomic.LoadInt64(&drained)>>10))
}
