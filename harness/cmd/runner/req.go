package main

import (
	"bytes"
	"context"
	"encoding/base64"
	"encoding/json"
	"fmt"
	"math/rand"
	"net/http/httptest"
	"strings"
	"sync"
	"time"

	connect "github.com/bufbuild/connect-go"
	"github.com/bufbuild/connect-go/verifharness/refcodec"
	"google.golang.org/protobuf/proto"
)

// Family "req": the real Handler.ServeHTTP is given an arbitrary, crafted request (C07, C12, handler
// half of C10).  Specification: spec/Serve.tla, trace specification spec/TraceServe.tla.

type reqScenario struct {
	Tid     int      `json:"tid"`
	Kind    string   `json:"kind"`
	Method  string   `json:"method"`
	Major   int      `json:"major"`
	Minor   int      `json:"minor"`
	Ctype   string   `json:"ctype"`
	Codecs  []string `json:"codecs"`
	Enc     string   `json:"enc"`
	Theader string   `json:"theader"`
	Timeout []string `json:"timeout"`
	Body    string   `json:"body"`
	Limit   int      `json:"limit"`
	Fuzz    int      `json:"fuzz"`
}

func init() { families["req"] = runReq }

// verifc: a custom codec (protobuf binary under another name)
type verifCodec struct{}

func (verifCodec) Name() string { return "verifc" }

// plusCodec: the same codec under a structured-syntax name (RFC 6838 "+suffix"), as vendor media types have
type plusCodec struct{ verifCodec }

func (plusCodec) Name() string { return "vnd.verif+bin" }

// poisonValue: a message the verifc codec refuses to marshal (a codec failing in Send, before any byte is written)
var poisonValue = []byte{0xFA, 0x11, 0xED}

func (verifCodec) Marshal(m any) ([]byte, error) {
	pm, ok := m.(proto.Message)
	if !ok {
		return nil, fmt.Errorf("not a proto message")
	}
	if bv, ok := m.(*BV); ok && bytes.HasPrefix(bv.Value, poisonValue) {
		return nil, fmt.Errorf("verifc: refusing to marshal a poisoned message")
	}
	return proto.Marshal(pm)
}
func (verifCodec) Unmarshal(b []byte, m any) error {
	pm, ok := m.(proto.Message)
	if !ok {
		return fmt.Errorf("not a proto message")
	}
	return proto.Unmarshal(b, pm)
}

type reqState struct {
	mu    sync.Mutex
	table *Table
	ran   int
	iran  int
	msgs  []int
	dl    int64 // remaining milliseconds seen by user code, -1 none
	proc  string
	stype int
}

type reqKey struct{}

func reqStateOf(ctx context.Context) *reqState {
	st, _ := ctx.Value(reqKey{}).(*reqState)
	return st
}

func (st *reqState) enter(ctx context.Context, spec connect.Spec) {
	st.mu.Lock()
	defer st.mu.Unlock()
	st.ran++
	st.dl = -1
	if d, ok := ctx.Deadline(); ok {
		st.dl = time.Until(d).Milliseconds()
		if st.dl > 1<<30 {
			st.dl = 1 << 30 // clipped: the specification's integers are 32 bit
		}
		if st.dl < 0 {
			st.dl = 0 // already passed (-1 means: no deadline)
		}
	}
	st.proc = spec.Procedure
	st.stype = int(spec.StreamType)
}

type countingInterceptor struct{}

// passThrough is an interceptor that does nothing: it only makes the chain longer.
type passThrough struct{}

func (passThrough) WrapUnary(next connect.UnaryFunc) connect.UnaryFunc { return next }
func (passThrough) WrapStreamingClient(next connect.StreamingClientFunc) connect.StreamingClientFunc {
	return next
}
func (passThrough) WrapStreamingHandler(next connect.StreamingHandlerFunc) connect.StreamingHandlerFunc {
	return next
}

var reqSharedOpts = []connect.HandlerOption{
	connect.WithInterceptors(countingInterceptor{}),
	connect.WithInterceptors(passThrough{}),
	connect.WithCompression("zstd-verif", nil, nil), connect.WithCompression("", newGzipD, newGzipC),
}

func (countingInterceptor) WrapUnary(next connect.UnaryFunc) connect.UnaryFunc {
	return func(ctx context.Context, r connect.AnyRequest) (connect.AnyResponse, error) {
		if st := reqStateOf(ctx); st != nil {
			st.mu.Lock()
			st.iran++
			st.mu.Unlock()
		}
		return next(ctx, r)
	}
}
func (countingInterceptor) WrapStreamingClient(next connect.StreamingClientFunc) connect.StreamingClientFunc {
	return next
}
func (countingInterceptor) WrapStreamingHandler(next connect.StreamingHandlerFunc) connect.StreamingHandlerFunc {
	return func(ctx context.Context, c connect.StreamingHandlerConn) error {
		if st := reqStateOf(ctx); st != nil {
			st.mu.Lock()
			st.iran++
			st.mu.Unlock()
		}
		return next(ctx, c)
	}
}

const reqProc = "/verif.v1.Svc/Method"

var reqHandlers sync.Map

func reqHandler(s *reqScenario) *connect.Handler {
	key := fmt.Sprintf("%s|%v|%d", s.Kind, s.Codecs, s.Limit)
	if h, ok := reqHandlers.Load(key); ok {
		return h.(*connect.Handler)
	}
	// two options documented as no-ops ride along: a compression registered with nil constructors (under the name
	// the "unknown" scenarios send) and one with an empty name
	// (option VALUES are shared by every handler built here, as in generated New<Service>Handler constructors: two
	//  separate interceptor options, the second one contributing nothing but being chained all the same)
	opts := append([]connect.HandlerOption{}, reqSharedOpts...)
	for _, c := range s.Codecs {
		if c == "verifc" {
			opts = append(opts, connect.WithCodec(verifCodec{}))
		}
		if c == "vnd.verif+bin" {
			opts = append(opts, connect.WithCodec(plusCodec{}))
		}
	}
	if s.Limit > 0 {
		opts = append(opts, connect.WithReadMaxBytes(s.Limit))
	}
	var h *connect.Handler
	switch s.Kind {
	case "unary":
		h = connect.NewUnaryHandler(reqProc, func(ctx context.Context, r *connect.Request[BV]) (*connect.Response[BV], error) {
			st := reqStateOf(ctx)
			st.enter(ctx, r.Spec())
			st.msgs = append(st.msgs, st.table.ID(r.Msg.Value))
			return connect.NewResponse(&BV{}), nil
		}, opts...)
	case "server":
		h = connect.NewServerStreamHandler(reqProc, func(ctx context.Context, r *connect.Request[BV], ss *connect.ServerStream[BV]) error {
			st := reqStateOf(ctx)
			st.enter(ctx, r.Spec())
			st.msgs = append(st.msgs, st.table.ID(r.Msg.Value))
			return ss.Send(&BV{})
		}, opts...)
	case "client":
		h = connect.NewClientStreamHandler(reqProc, func(ctx context.Context, cs *connect.ClientStream[BV]) (*connect.Response[BV], error) {
			st := reqStateOf(ctx)
			st.enter(ctx, connect.Spec{Procedure: reqProc, StreamType: connect.StreamTypeClient})
			for cs.Receive() {
				st.msgs = append(st.msgs, st.table.ID(cs.Msg().Value))
			}
			if err := cs.Err(); err != nil {
				return nil, err
			}
			return connect.NewResponse(&BV{}), nil
		}, opts...)
	default:
		h = connect.NewBidiStreamHandler(reqProc, func(ctx context.Context, bs *connect.BidiStream[BV, BV]) error {
			st := reqStateOf(ctx)
			st.enter(ctx, connect.Spec{Procedure: reqProc, StreamType: connect.StreamTypeBidi})
			for {
				m, err := bs.Receive()
				if err != nil {
					if isEOF(err) {
						return bs.Send(&BV{})
					}
					return err
				}
				st.msgs = append(st.msgs, st.table.ID(m.Value))
			}
		}, opts...)
	}
	actual, _ := reqHandlers.LoadOrStore(key, h)
	return actual.(*connect.Handler)
}

// protoOfCT: which protocol's header names go with this content type (for building the request only).
func protoOfCT(ct string) (protoName string, codec string) {
	switch {
	case strings.HasPrefix(ct, "application/grpc-web"):
		protoName = "grpcweb"
	case strings.HasPrefix(ct, "application/grpc"):
		protoName = "grpc"
	default:
		protoName = "connect"
	}
	codec = "proto"
	if strings.HasSuffix(ct, "json") {
		codec = "json"
	}
	return
}

func encodeBV(codec string, v []byte) []byte {
	if codec == "json" {
		return []byte(`"` + base64.StdEncoding.EncodeToString(v) + `"`)
	}
	return marshalBV(v)
}

func runReq(raw json.RawMessage, seed int64, rec *Rec) {
	var s reqScenario
	if err := json.Unmarshal(raw, &s); err != nil {
		panic(err)
	}
	rng := rand.New(rand.NewSource(seed))
	var scm map[string]any
	_ = json.Unmarshal(raw, &scm)
	delete(scm, "tid")
	rec.Add(E("reset", "tid", s.Tid, "sc", scm))

	st := &reqState{table: NewTable(), dl: -1}
	protoName, codec := protoOfCT(s.Ctype)
	rawBody := protoName == "connect" && s.Kind == "unary"
	m1, m2, big := payloadFor(1, 5, rng), payloadFor(2, 7, rng), payloadFor(9, 200, rng)
	st.table.Put(1, m1)
	st.table.Put(2, m2)
	st.table.Put(9, big)
	env := func(flag byte, p []byte) []byte {
		if rawBody {
			return p
		}
		return refcodec.Envelope(flag, p)
	}
	bad := []byte{0xFF, 0xFF, 0xFF}
	if codec == "json" {
		bad = []byte(`{"not":"a bytes value"`)
	}
	var body []byte
	switch s.Body {
	case "good":
		body = env(0, encodeBV(codec, m1))
	case "two":
		body = append(env(0, encodeBV(codec, m1)), env(0, encodeBV(codec, m2))...)
	case "empty":
	case "garbage":
		body = []byte{0xFF, 0x00, 0x00, 0x10, 0x00, 0xAB, 0xCD}
	case "truncated":
		full := env(0, encodeBV(codec, m1))
		body = full[:len(full)-2]
	case "manyok": // three messages of about 20 bytes: each below a limit of 64 (also when compressed), together above it
		m3 := payloadFor(3, 18, rng)
		st.table.Put(3, m3)
		big1, big2 := payloadFor(1, 18, rng), payloadFor(2, 18, rng)
		st.table.Put(1, big1)
		st.table.Put(2, big2)
		body = append(append(env(0, encodeBV(codec, big1)), env(0, encodeBV(codec, big2))...), env(0, encodeBV(codec, m3))...)
	case "badmsg":
		body = env(0, bad)
	case "badutf8": // does not decode, and what an error message would quote of it is not valid UTF-8
		body = env(0, []byte("\"\xff\xfe{")) // (for JSON: a syntax error whose text echoes the bytes)
	case "oversize":
		body = env(0, encodeBV(codec, big))
	case "cnoenc":
		body = env(1, refcodec.Gzip(encodeBV(codec, m1)))
	case "cflagplain":
		body = env(1, encodeBV(codec, m1))
	case "flagged", "flagged0":
		flags := []byte{0x02, 0x80, 0x04, 0x03, 0x81}
		var payload []byte
		if s.Body == "flagged" {
			payload = []byte("{}")
		}
		body = env(flags[rng.Intn(len(flags))], payload)
	case "msgthenbad":
		body = append(env(0, encodeBV(codec, m1)), env(0, bad)...)
	}
	if (s.Enc == "gzip" || s.Enc == "GZIP") && len(body) > 0 && s.Body != "garbage" && s.Body != "truncated" && s.Body != "cnoenc" && s.Body != "cflagplain" && s.Body != "flagged" && s.Body != "flagged0" {
		// a correctly compressed variant of the same body
		if rawBody {
			body = refcodec.Gzip(body)
		} else {
			frames, _ := refcodec.ParseEnvelopes(body)
			body = nil
			for _, f := range frames {
				body = append(body, refcodec.Envelope(1, refcodec.Gzip(f.Payload))...)
			}
		}
	}
	if s.Fuzz > 0 {
		body = make([]byte, s.Fuzz)
		rng.Read(body)
	}
	req := httptest.NewRequest("POST", "http://verif.test"+reqProc, bytes.NewReader(body))
	req.Method = s.Method
	req.ProtoMajor, req.ProtoMinor = s.Major, s.Minor
	req.Proto = fmt.Sprintf("HTTP/%d.%d", s.Major, s.Minor)
	if s.Ctype != "" {
		req.Header.Set("Content-Type", s.Ctype)
	}
	switch s.Enc {
	case "gzip":
		req.Header.Set(encodingHeader(protoName, rawBody), "gzip")
	case "GZIP":
		// a registered name in another letter case: unknown or gzip, but not something in between
		req.Header.Set(encodingHeader(protoName, rawBody), []string{"GZIP", "Gzip"}[rng.Intn(2)])
	case "unknown":
		req.Header.Set(encodingHeader(protoName, rawBody), "zstd-verif")
	}
	if s.Tid%2 == 0 {
		// what the client can take back says nothing about what it sent: the request's messages are judged by the
		// request's own encoding header
		req.Header.Set(acceptEncodingHeader(protoName, rawBody), "gzip")
	}
	switch s.Theader {
	case "connect":
		req.Header["Connect-Timeout-Ms"] = []string{strings.Join(s.Timeout, "")}
	case "grpc":
		req.Header["Grpc-Timeout"] = []string{strings.Join(s.Timeout, "")}
	}
	if len(s.Timeout) == 0 {
		req.Header.Del("Connect-Timeout-Ms")
		req.Header.Del("Grpc-Timeout")
	}
	req = req.WithContext(context.WithValue(req.Context(), reqKey{}, st))
	rw := httptest.NewRecorder()
	reqHandler(&s).ServeHTTP(rw, req)

	res := rw.Result()
	hdr := stripTrailerKeys(res.Header)
	status := res.StatusCode
	// stages the handler evidently went through
	stages := []string{"g505"}
	if status != 505 {
		stages = append(stages, "g405")
		if status != 405 {
			stages = append(stages, "g415")
			if status != 415 {
				stages = append(stages, "serve")
			}
		}
	}
	bare := status == 505 || status == 405 || status == 415
	code := 0
	problems := []string{}
	if !bare {
		d := refcodec.ParseResponse(protoName, rawBody, s.Ctype, status, hdr, rw.Body.Bytes(), res.Trailer)
		problems = append(problems, d.Problems...)
		if d.Err != nil {
			code = d.Err.Code
		}
	} else if rw.Body.Len() != 0 {
		problems = append(problems, "bare rejection with a body")
	}
	ap := []string{}
	if v := hdr.Get("Accept-Post"); v != "" {
		ap = strings.Split(v, ", ")
	}
	st.mu.Lock()
	msgs := nz(st.msgs)
	for _, e := range stages {
		rec.Add(E("stage", "name", e))
	}
	rec.Add(E("done", "status", status, "allow", hdr.Get("Allow"), "ap", ap, "ran", st.ran, "iran", st.iran,
		"msgs", msgs, "code", code, "dl", st.dl, "proc", st.proc, "stype", st.stype, "problems", problems,
		"apraw", hdr.Get("Accept-Post")))
	st.mu.Unlock()
}
