package main

import (
	"bytes"
	"context"
	"encoding/json"
	"fmt"
	"math"
	"math/rand"
	"net/http"
	"net/url"
	"net/http/httptest"
	"runtime"
	"sync"

	connect "github.com/bufbuild/connect-go"
	"github.com/bufbuild/connect-go/verifharness/refcodec"
	"google.golang.org/protobuf/proto"
)

// Family "frames": a scripted byte stream (segmentation, cut, tail chosen by the scenario)
// is fed to the real client (as a response body) or the real handler (as a request body).
// Specification: spec/Frames.tla, trace specification spec/TraceFrames.tla.

type frameSc struct {
	Flag    int    `json:"flag"`
	Len     int    `json:"len"`
	Ilen    int    `json:"ilen"`
	Body    string `json:"body"`
	ID      int    `json:"id"`
	Corrupt bool   `json:"corrupt"`
	Lie     bool   `json:"lie,omitempty"` // the prefix declares Len bytes, only a few are really there
}

type framesScenario struct {
	Tid      int       `json:"tid"`
	Proto    string    `json:"proto"`
	Side     string    `json:"side"`
	Shape    string    `json:"shape"`
	Raw      bool      `json:"raw"`
	Reuse    bool      `json:"reuse"`
	Limit    int       `json:"limit"`
	Enc      string    `json:"enc"`
	Frames   []frameSc `json:"frames"`
	Cut      int       `json:"cut"`
	Tail     string    `json:"tail"`
	Status   int       `json:"status"` // client side: HTTP status of the scripted response (0 = 200)
	DoErr    bool      `json:"doerr"` // client side: HTTPClient.Do itself fails (no response at all)
	Bidi     bool      `json:"bidi"`  // handler side, stream shape: a bidi handler (results read unlatched)
	Trailers string    `json:"trailers"`
	Script   []int     `json:"script"`
	EofWith  bool      `json:"eofwith"`
	Concrete bool      `json:"concrete"` // lens and cut are already concrete (replay)
	Bomb     bool      `json:"bomb"`     // measure what the call allocates
	MaxLimit bool      `json:"maxlimit"` // configure a huge read limit (BigLimit says which; default the largest int)
	BigLimit string    `json:"biglimit"`
}

func init() { families["frames"] = runFrames }

func marshalBV(v []byte) []byte {
	b, _ := proto.Marshal(&BV{Value: v})
	return b
}

func terminatorPayload(protoName, body string) []byte {
	if protoName == "grpcweb" {
		switch body {
		case "endok":
			return []byte("grpc-status: 0\r\n")
		case "enderr":
			return []byte("grpc-status: 5\r\ngrpc-message: nf\r\n")
		}
		return []byte("x-no-status: 1\r\n")
	}
	switch body {
	case "endok":
		return []byte("{}")
	case "enderr":
		return []byte(`{"error":{"code":"not_found","message":"nf"}}`)
	}
	return []byte("{x")
}

// concretise turns the abstract frames into bytes; it updates Len/Ilen to the real sizes.
func concretiseFrames(s *framesScenario, rng *rand.Rand, table *Table) [][]byte {
	out := make([][]byte, len(s.Frames))
	for i := range s.Frames {
		f := &s.Frames[i]
		compressed := f.Flag&1 == 1
		var inner []byte
		if f.Lie {
			out[i] = []byte{0x0A, 0x06, 1, 2, 3, 4, 5, 6}
			continue
		}
		if f.Body == "msg" && f.Ilen >= 1<<20 {
			// a "bomb": megabytes of zeros that compress to a few kilobytes
			v := make([]byte, f.Ilen-8)
			v[0] = byte(f.ID)
			table.Put(f.ID, v)
			inner := marshalBV(v)
			out[i] = refcodec.GzipBest(inner)
			f.Ilen, f.Len = len(inner), len(out[i])
			continue
		}
		switch f.Body {
		case "msg":
			want := f.Len
			if compressed {
				want = f.Ilen
			}
			if want < 3 {
				want = 3
			}
			vlen := valueForEncodedLen(want)
			for vlen < 0 {
				want++
				vlen = valueForEncodedLen(want)
			}
			if want >= 8 && valueForEncodedLen(want-3) > 0 {
				// the same field twice (the last one wins): a payload cut after the first occurrence still
				// parses, to a decoy value that projects to "corrupt"
				v := payloadFor(f.ID, valueForEncodedLen(want-3), rng)
				table.Put(f.ID, v)
				inner = append([]byte{0x0A, 0x01, 0xEE}, marshalBV(v)...)
			} else {
				v := payloadFor(f.ID, vlen, rng)
				table.Put(f.ID, v)
				inner = marshalBV(v)
			}
		case "zero":
			inner = nil
		case "bad":
			n := f.Len
			if n < 1 {
				n = 1
			}
			inner = bytes.Repeat([]byte{0xFF}, n)
		default:
			inner = terminatorPayload(s.Proto, f.Body)
		}
		payload := inner
		if compressed && len(inner) == 0 && f.Len > 0 {
			payload = refcodec.Gzip(nil) // the zero message, really compressed
		}
		if compressed && len(inner) > 0 {
			payload = refcodec.Gzip(inner)
			if f.Corrupt {
				payload = append([]byte(nil), payload...)
				// damage either the magic number or the deflate stream / checksum
				idx := []int{0, 1}
				for j := 10; j < len(payload); j++ {
					idx = append(idx, j)
				}
				at := idx[rng.Intn(len(idx))]
				if s.Tid%3 == 0 {
					at = 0 // the magic number: the decompressor's Reset itself fails (on a fresh one, before its first use)
				}
				payload[at] ^= 0x5A
			}
		}
		f.Ilen = len(inner)
		f.Len = len(payload)
		out[i] = payload
	}
	return out
}

// mapCut translates a cut offset over the abstract frame sizes to the concrete ones.
func mapCut(absLens, concLens []int, cut, pre int) int {
	absOff, concOff := 0, 0
	for i := range absLens {
		absEnd := absOff + pre + absLens[i]
		if cut < absEnd {
			j := cut - absOff
			if j <= pre {
				return concOff + j
			}
			p := j - pre // 1..absLens[i]-1 bytes of payload
			c := (p*concLens[i] + absLens[i] - 1) / absLens[i]
			if c >= concLens[i] && concLens[i] > 0 {
				c = concLens[i] - 1
			}
			return concOff + pre + c
		}
		absOff = absEnd
		concOff += pre + concLens[i]
	}
	return concOff + (cut - absOff) // at or beyond the end
}

func runFrames(raw json.RawMessage, seed int64, rec *Rec) {
	var s framesScenario
	if err := json.Unmarshal(raw, &s); err != nil {
		panic(err)
	}
	rng := rand.New(rand.NewSource(seed))
	table := NewTable()
	pre := 5
	if s.Raw {
		pre = 0
	}
	absLens := make([]int, len(s.Frames))
	for i, f := range s.Frames {
		absLens[i] = f.Len
	}
	payloads := concretiseFrames(&s, rng, table)
	var wire []byte
	concLens := make([]int, len(s.Frames))
	for i, f := range s.Frames {
		concLens[i] = f.Len
		if s.Raw {
			wire = append(wire, payloads[i]...)
		} else if f.Lie {
			wire = append(wire, refcodec.EnvelopeDeclared(byte(f.Flag), uint32(f.Len), payloads[i])...)
		} else {
			wire = append(wire, refcodec.Envelope(byte(f.Flag), payloads[i])...)
		}
	}
	if s.Status != 0 && !s.Bomb {
		// a non-200 unary Connect response: the body is the error document (whatever the frames say), complete
		wire = []byte(`{"code":"not_found","message":"a message long enough to arrive in several reads","details":[]}`)
		s.Cut, s.Concrete = len(wire)+1, true
		s.Frames = s.Frames[:1]
		s.Frames[0].Len, s.Frames[0].Ilen = len(wire), len(wire)
	}
	if !s.Concrete {
		s.Cut = mapCut(absLens, concLens, s.Cut, pre)
	}
	avail := wire
	if s.Cut < len(wire) {
		avail = wire[:s.Cut]
	}
	limit := s.Limit
	if s.MaxLimit {
		switch s.BigLimit {
		case "4g":
			limit = 1 << 32
		case "4g16":
			limit = 1<<32 + 16
		default:
			limit = math.MaxInt
		}
	}
	var ms0 runtime.MemStats
	if s.Bomb {
		runtime.GC()
		runtime.ReadMemStats(&ms0)
	}
	allocKB := func() int64 {
		if !s.Bomb {
			return 0
		}
		var ms1 runtime.MemStats
		runtime.ReadMemStats(&ms1)
		return int64(ms1.TotalAlloc-ms0.TotalAlloc) / 1024
	}
	// the reset event carries the concrete scenario
	sc := map[string]any{
		"bomb": s.Bomb, "maxlimit": s.MaxLimit,
		"proto": s.Proto, "side": s.Side, "shape": s.Shape, "raw": s.Raw, "reuse": s.Reuse, "limit": s.Limit,
		"enc": s.Enc, "frames": s.Frames, "cut": s.Cut, "tail": s.Tail, "trailers": s.Trailers,
	}
	if s.Status != 0 {
		sc["status"] = s.Status
	}
	if s.DoErr {
		sc["doerr"] = true
	}
	scn := map[string]any{"script": s.Script, "eofwith": s.EofWith, "seed": seed}
	for k, v := range sc {
		scn[k] = v
	}
	scn["concrete"] = true
	rec.Add(E("reset", "tid", s.Tid, "sc", sc, "scn", scn))

	// "the last bytes together with the end signal" is meaningful for a clean EOF only: data that comes
	// with a transport failure may legitimately be dropped
	body := &scriptedBody{data: append([]byte(nil), avail...), script: s.Script, tail: s.Tail,
		eofWith: s.EofWith && s.Tail == "eof", rec: rec}
	// (chosen by the scenario's content, not its id: the segmentations of one scenario are compared with each other)
	if v := s.Cut*7 + len(s.Frames)*3 + len(s.Proto) + s.Limit; v%3 == 1 {
		body.errv = rstError(v / 3) // a transport error that is an HTTP/2 stream reset from the peer
	}
	unary := s.Shape == "unary"
	ct := contentType(s.Proto, s.Raw, "proto")

	if s.Side == "client" {
		trailer := http.Header{}
		// tails "ctxc" / "ctxd": the call's context ends (cancel() / deadline) at this point of the response and the
		// transport's body read fails with the context's error, as net/http's do (C15 "while receiving")
		mctx := &manualCtx{Context: context.Background(), done: make(chan struct{}), deadline: s.Tail == "ctxd"}
		body.onEOF = func() {
			if s.Tail == "ctxc" {
				mctx.end("canceled")
			} else if s.Tail == "ctxd" {
				mctx.end("expired")
			}
			if s.Tail != "eof" {
				return
			}
			switch s.Trailers {
			case "ok":
				trailer.Set("Grpc-Status", "0")
			case "err":
				trailer.Set("Grpc-Status", "5")
				trailer.Set("Grpc-Message", "nf")
			}
		}
		fake := &fakeHTTP{}
		fake.respond = func(req *http.Request) (*http.Response, error) {
			if s.DoErr {
				// the transport fails before there is a response: in the model, the tail with nothing delivered
				rec.Add(E("read", "k", 0, "e", s.Tail))
				if s.Cut%2 == 0 {
					return nil, &url.Error{Op: "Post", URL: req.URL.String(), Err: body.tailErr()} // what http.Client.Do returns
				}
				return nil, fmt.Errorf("Post %q: %w", req.URL, body.tailErr())
			}
			h := http.Header{}
			h.Set("Content-Type", req.Header.Get("Content-Type"))
			if s.Enc != "none" && s.Enc != "" {
				h.Set(encodingHeader(s.Proto, s.Raw), s.Enc)
			}
			status := 200
			if s.Status != 0 {
				status = s.Status
				h.Set("Content-Type", "application/json") // a unary Connect error body
			}
			// net/http announces the length of small unary responses: a complete, cleanly ended unary Connect body
			// comes with its Content-Length (every other second scenario), streams never do
			clen := int64(-1)
			if s.Raw && s.Tail == "eof" && s.Cut >= len(wire) && s.Tid%2 == 0 {
				clen = int64(len(wire))
			}
			return &http.Response{StatusCode: status, Status: statusLine(status), ProtoMajor: 2, Header: h,
				Trailer: trailer, Body: body, Request: req, ContentLength: clen}, nil
		}
		opts := clientProtoOpts(s.Proto)
		if limit > 0 {
			opts = append(opts, connect.WithReadMaxBytes(limit))
		}
		client := connect.NewClient[BV, BV](fake, "http://verif.test/verif.v1.Svc/Method", opts...)
		out := []int{}
		if unary {
			res, err := client.CallUnary(mctx, connect.NewRequest(&BV{Value: []byte{1}}))
			if err == nil {
				out = append(out, table.ID(res.Msg.Value))
			}
			rec.Add(E("done", "ok", err == nil, "code", codeOf(err), "out", out, "alloc_kb", allocKB()))
		} else if s.Bidi {
			// a bidi stream hands out the connection's results unlatched: after the end of the stream (clean or
			// not) two further Receives must keep reporting an error and a Send must not succeed (C14)
			stream := client.CallBidiStream(mctx)
			_ = stream.Send(&BV{Value: []byte{1}})
			_ = stream.CloseRequest()
			var err error
			for {
				m, rerr := stream.Receive()
				if rerr != nil {
					if !isEOF(rerr) {
						err = rerr
					}
					break
				}
				id := table.ID(m.Value)
				out = append(out, id)
				rec.Add(E("recv", "id", id))
			}
			after := []int{}
			for i := 0; i < 2; i++ {
				m, rerr := stream.Receive()
				switch {
				case rerr == nil:
					after = append(after, table.ID(m.Value))
				case isEOF(rerr):
					after = append(after, -100)
				default:
					after = append(after, -codeOf(rerr))
				}
			}
			rec.Add(E("done", "ok", err == nil, "code", codeOf(err), "out", out, "alloc_kb", allocKB(), "after", after))
			_ = stream.CloseResponse()
		} else {
			stream, err := client.CallServerStream(mctx, connect.NewRequest(&BV{Value: []byte{1}}))
			if err != nil {
				rec.Add(E("done", "ok", false, "code", codeOf(err), "out", out, "at", "call"))
				return
			}
			for stream.Receive() {
				id := table.ID(stream.Msg().Value)
				out = append(out, id)
				rec.Add(E("recv", "id", id))
			}
			err = stream.Err()
			rec.Add(E("done", "ok", err == nil, "code", codeOf(err), "out", out, "alloc_kb", allocKB()))
			_ = stream.Close()
		}
		fake.wg.Wait()
		return
	}

	// handler side: handlers are shared between scenarios (as in a real server); the per-scenario
	// observation state travels in the request context
	st := &framesHandlerState{rec: rec, table: table, out: []int{}}
	h := framesHandler(unary, limit, s.Bidi)
	req := httptest.NewRequest(http.MethodPost, "http://verif.test/verif.v1.Svc/Method", body)
	req.ProtoMajor, req.ProtoMinor = 2, 0
	req.Header.Set("Content-Type", ct)
	if s.Enc != "none" && s.Enc != "" {
		req.Header.Set(encodingHeader(s.Proto, s.Raw), s.Enc)
	}
	rw := httptest.NewRecorder()
	h.ServeHTTP(rw, req.WithContext(context.WithValue(req.Context(), framesKey{}, st)))
	out, ran, seen := st.out, st.ran, st.seen
	if unary {
		ok := ran == 1
		code := 0
		if !ok {
			code = responseCode(s.Proto, s.Raw, ct, rw)
		}
		rec.Add(E("done", "ok", ok, "code", code, "out", out, "ran", ran, "alloc_kb", allocKB()))
		return
	}
	after := st.after
	if after == nil {
		after = []int{}
	}
	rec.Add(E("done", "ok", seen == nil && ran == 1, "code", codeOf(seen), "out", out, "ran", ran,
		"resp", responseCode(s.Proto, s.Raw, ct, rw), "alloc_kb", allocKB(), "after", after))
}

// responseCode decodes the recorded response with the reference codec: 0 success, else the error code;
// -1 if the response is not well-formed for the protocol.
func responseCode(protoName string, unary bool, reqCT string, rw *httptest.ResponseRecorder) int {
	res := rw.Result()
	d := refcodec.ParseResponse(protoName, unary, reqCT, res.StatusCode, res.Header, rw.Body.Bytes(), res.Trailer)
	if len(d.Problems) > 0 {
		return -1
	}
	if d.Err == nil {
		return 0
	}
	return d.Err.Code
}

type framesKey struct{}

type framesHandlerState struct {
	rec   *Rec
	table *Table
	out   []int
	ran   int
	seen  error
	after []int
}

var framesHandlers sync.Map // key -> *connect.Handler

func framesHandler(unary bool, limit int, bidi bool) *connect.Handler {
	key := [2]int{0, limit}
	if unary {
		key[0] = 1
	} else if bidi {
		key[0] = 2
	}
	if h, ok := framesHandlers.Load(key); ok {
		return h.(*connect.Handler)
	}
	var hopts []connect.HandlerOption
	if limit > 0 {
		hopts = append(hopts, connect.WithReadMaxBytes(limit))
	}
	var h *connect.Handler
	if unary {
		h = connect.NewUnaryHandler("/verif.v1.Svc/Method", func(ctx context.Context, r *connect.Request[BV]) (*connect.Response[BV], error) {
			st := ctx.Value(framesKey{}).(*framesHandlerState)
			st.ran++
			st.out = append(st.out, st.table.ID(r.Msg.Value))
			return connect.NewResponse(&BV{}), nil
		}, hopts...)
	} else if bidi {
		// a bidi handler reads the connection's results unlatched: after a failure it asks twice more
		h = connect.NewBidiStreamHandler("/verif.v1.Svc/Method", func(ctx context.Context, bs *connect.BidiStream[BV, BV]) error {
			st := ctx.Value(framesKey{}).(*framesHandlerState)
			st.ran++
			for {
				m, err := bs.Receive()
				if err != nil {
					if !isEOF(err) {
						st.seen = err
					}
					break
				}
				id := st.table.ID(m.Value)
				st.out = append(st.out, id)
				st.rec.Add(E("recv", "id", id))
			}
			if st.seen != nil {
				// what two further Receives report after the failure is compared across the segmentations of the
				// same bytes (C03): >= 0 a message id, -100 a clean end, -code an error
				for i := 0; i < 2; i++ {
					m, err := bs.Receive()
					switch {
					case err == nil:
						st.after = append(st.after, st.table.ID(m.Value))
					case isEOF(err):
						st.after = append(st.after, -100)
					default:
						st.after = append(st.after, -codeOf(err))
					}
				}
			}
			return st.seen
		}, hopts...)
	} else {
		h = connect.NewClientStreamHandler("/verif.v1.Svc/Method", func(ctx context.Context, cs *connect.ClientStream[BV]) (*connect.Response[BV], error) {
			st := ctx.Value(framesKey{}).(*framesHandlerState)
			st.ran++
			for cs.Receive() {
				id := st.table.ID(cs.Msg().Value)
				st.out = append(st.out, id)
				st.rec.Add(E("recv", "id", id))
			}
			st.seen = cs.Err()
			if st.seen != nil {
				return nil, st.seen
			}
			return connect.NewResponse(&BV{}), nil
		}, hopts...)
	}
	actual, _ := framesHandlers.LoadOrStore(key, h)
	return actual.(*connect.Handler)
}
