package main

import (
	"context"
	"encoding/json"
	"errors"
	"fmt"
	"net/http"
	"strings"
	"sync"

	connect "github.com/bufbuild/connect-go"
	"google.golang.org/protobuf/types/known/anypb"
	"google.golang.org/protobuf/types/known/wrapperspb"
)

// Family "opts": option trees and interceptor order (C16), WithRecover (C19).
// Specification: spec/Options.tla, trace specification spec/TraceOptions.tla.

type optNode struct {
	T string          `json:"t"`
	V json.RawMessage `json:"v"`
}

type panicSc struct {
	Value string `json:"value"`
	At    int    `json:"at"`
}

type optsScenario struct {
	Tid   int       `json:"tid"`
	Opts  []optNode `json:"opts"`
	Side  string    `json:"side"`
	Shape string    `json:"shape"`
	Proto string    `json:"proto"`
	Kind  string    `json:"kind"`
	Panic *panicSc  `json:"panic"`
	// Grouping: which constructor builds a group -- "alt": WithClientOptions / WithHandlerOptions at even nesting depth
	// and WithOptions at odd depth; "both": WithOptions everywhere; "side": the side-specific constructors everywhere
	Grouping string `json:"grouping"`
}

func init() { families["opts"] = runOpts }

type layerLog struct {
	mu                             sync.Mutex
	enter, exit, sendpre, recvpost []string
	// overlap: the first WrapStreamingClient invocation on the client parks (inside the library's construction of that
	// call's chain) until the gate opens, so that another streaming call overlaps with it
	gate, inside chan struct{}
	gateOnce     sync.Once
	// slices: what the scenario passed to WithInterceptors(slice...); the program reuses them afterwards
	slices [][]connect.Interceptor
}

func (l *layerLog) add(dst *[]string, n string) {
	l.mu.Lock()
	*dst = append(*dst, n)
	l.mu.Unlock()
}

// namedInterceptor logs when each of its layers runs, for the side under observation only.
type namedInterceptor struct {
	name string
	log  *layerLog
	side string
}

func (i *namedInterceptor) WrapUnary(next connect.UnaryFunc) connect.UnaryFunc {
	return func(ctx context.Context, r connect.AnyRequest) (connect.AnyResponse, error) {
		mine := (i.side == "client") == r.Spec().IsClient
		if mine {
			i.log.add(&i.log.enter, i.name)
		}
		res, err := next(ctx, r)
		if mine {
			i.log.add(&i.log.exit, i.name)
		}
		return res, err
	}
}

type loggingClientConn struct {
	connect.StreamingClientConn
	i *namedInterceptor
}

func (c *loggingClientConn) Send(m any) error {
	c.i.log.add(&c.i.log.sendpre, c.i.name)
	return c.StreamingClientConn.Send(m)
}
func (c *loggingClientConn) Receive(m any) error {
	err := c.StreamingClientConn.Receive(m)
	if err == nil {
		c.i.log.add(&c.i.log.recvpost, c.i.name)
	}
	return err
}

func (i *namedInterceptor) WrapStreamingClient(next connect.StreamingClientFunc) connect.StreamingClientFunc {
	if i.side == "client" && i.log.gate != nil {
		first := false
		i.log.gateOnce.Do(func() { first = true })
		if first {
			close(i.log.inside)
			<-i.log.gate
		}
	}
	return func(ctx context.Context, spec connect.Spec) connect.StreamingClientConn {
		if i.side != "client" {
			return next(ctx, spec)
		}
		i.log.add(&i.log.enter, i.name)
		return &loggingClientConn{StreamingClientConn: next(ctx, spec), i: i}
	}
}

type loggingHandlerConn struct {
	connect.StreamingHandlerConn
	i *namedInterceptor
}

func (c *loggingHandlerConn) Send(m any) error {
	c.i.log.add(&c.i.log.sendpre, c.i.name)
	return c.StreamingHandlerConn.Send(m)
}
func (c *loggingHandlerConn) Receive(m any) error {
	err := c.StreamingHandlerConn.Receive(m)
	if err == nil {
		c.i.log.add(&c.i.log.recvpost, c.i.name)
	}
	return err
}

func (i *namedInterceptor) WrapStreamingHandler(next connect.StreamingHandlerFunc) connect.StreamingHandlerFunc {
	return func(ctx context.Context, conn connect.StreamingHandlerConn) error {
		if i.side != "handler" {
			return next(ctx, conn)
		}
		i.log.add(&i.log.enter, i.name)
		err := next(ctx, &loggingHandlerConn{StreamingHandlerConn: conn, i: i})
		i.log.add(&i.log.exit, i.name)
		return err
	}
}

type recoverLog struct {
	mu    sync.Mutex
	calls int
	seen  []string
}

type panicStruct struct{ N int }

// ctxCause is an error with an empty text that wraps context.DeadlineExceeded.
type ctxCause struct{}

func (ctxCause) Error() string { return "" }
func (ctxCause) Unwrap() error { return context.DeadlineExceeded }

func classOfPanic(v any) string {
	switch x := v.(type) {
	case nil:
		return "nil"
	case error:
		if x == http.ErrAbortHandler { //nolint
			return "abort"
		}
		if x.Error() == "verif panic error" {
			return "error"
		}
		if strings.HasPrefix(x.Error(), "verif wrapped:") {
			return "wrapabort"
		}
		return "nil" // *runtime.PanicNilError is an error too (Go >= 1.21 semantics)
	case string:
		return "string"
	case panicStruct:
		return "struct"
	case []string:
		return "slice"
	case []byte:
		return "bytes"
	case int:
		return "int"
	}
	return fmt.Sprintf("other:%T", v)
}

func panicValue(class string) any {
	switch class {
	case "error":
		return errors.New("verif panic error")
	case "string":
		return "verif panic string"
	case "struct":
		return panicStruct{N: 7}
	case "slice": // not comparable, not hashable
		return []string{"verif", "panic", "slice"}
	case "int": // the recovery function answers this one with a plain Go error, not a coded one
		return 42
	case "bytes": // what the recovery function makes of it is a message that is not valid UTF-8
		return []byte("bad\xffutf8")
	case "abort":
		return http.ErrAbortHandler
	case "wrapabort": // not the sentinel itself: must be recovered like any other value
		return fmt.Errorf("verif wrapped: %w", http.ErrAbortHandler)
	}
	return nil
}

// buildOpts turns the option tree into real option values. apply events mirror the fold.
func buildOpts(nodes []optNode, side string, log *layerLog, rl *recoverLog, rec *Rec, depth int, grouping string) (copts []connect.ClientOption, hopts []connect.HandlerOption) {
	for _, n := range nodes {
		if n.T == "ics" {
			var names []string
			_ = json.Unmarshal(n.V, &names)
			if len(names) == 1 && names[0] == "R" {
				hopts = append(hopts, connect.WithRecover(func(_ context.Context, _ connect.Spec, _ http.Header, v any) error {
					rl.mu.Lock()
					rl.calls++
					rl.seen = append(rl.seen, classOfPanic(v))
					rl.mu.Unlock()
					// (the error the function returns carries metadata of its own)
					coded := func(cause error) *connect.Error {
						e := connect.NewError(connect.CodeDataLoss, cause)
						e.Meta().Set("X-Rec-Meta", "m")
						if d, derr := anypb.New(wrapperspb.String("rec-detail")); derr == nil {
							e.AddDetail(d) // ... and a detail
						}
						return e
					}
					if c := classOfPanic(v); c == "struct" {
						// ... or an error that wraps the function's coded error (errors.As finds it)
						return fmt.Errorf("while recovering: %w", coded(errors.New("recovered")))
					} else if c == "string" {
						// what the function returns is the function's business: a coded error whose cause happens to
						// be a context error must reach the client with the function's code
						return coded(fmt.Errorf("recovered%w", ctxCause{}))
					}
					if _, ok := v.(int); ok {
						return errors.New("recovered plainly") // uncoded: unknown, with this text
					}
					if b, ok := v.([]byte); ok {
						// the function quotes the value: its message is not valid UTF-8, its code must arrive all the same
						return coded(fmt.Errorf("recovered: %s", b))
					}
					return coded(errors.New("recovered"))
				}))
				continue
			}
			ics := make([]connect.Interceptor, len(names))
			for i, name := range names {
				if name == "U" {
					// a UnaryInterceptorFunc: a layer of unary calls only, transparent on streaming ones
					ics[i] = connect.UnaryInterceptorFunc((&namedInterceptor{name: name, log: log, side: side}).WrapUnary)
				} else if name != "nil" {
					ics[i] = &namedInterceptor{name: name, log: log, side: side}
				}
			}
			o := connect.WithInterceptors(ics...)
			log.slices = append(log.slices, ics) // the caller's slice: overwritten once client and handler exist
			copts = append(copts, o)
			hopts = append(hopts, o)
			continue
		}
		var sub []optNode
		_ = json.Unmarshal(n.V, &sub)
		c, h := buildOpts(sub, side, log, rl, rec, depth+1, grouping)
		if grouping == "side" || (grouping != "both" && depth%2 == 0) {
			copts = append(copts, connect.WithClientOptions(c...))
			hopts = append(hopts, connect.WithHandlerOptions(h...))
		} else {
			// the side-agnostic grouping needs Option values: interceptor options are
			var both []connect.Option
			ok := true
			for _, x := range h {
				if o, isOpt := x.(connect.Option); isOpt {
					both = append(both, o)
				} else {
					ok = false
				}
			}
			if ok {
				copts = append(copts, connect.WithOptions(both...))
				hopts = append(hopts, connect.WithOptions(both...))
			} else {
				copts = append(copts, connect.WithClientOptions(c...))
				hopts = append(hopts, connect.WithHandlerOptions(h...))
			}
		}
	}
	return
}

func emitApply(nodes []optNode, rec *Rec) {
	for _, n := range nodes {
		rec.Add(E("apply", "t", n.T))
		if n.T == "group" {
			var sub []optNode
			_ = json.Unmarshal(n.V, &sub)
			emitApply(sub, rec)
		}
	}
}

func runOpts(raw json.RawMessage, seed int64, rec *Rec) {
	var s optsScenario
	if err := json.Unmarshal(raw, &s); err != nil {
		panic(err)
	}
	var scm map[string]any
	_ = json.Unmarshal(raw, &scm)
	delete(scm, "tid")
	rec.Add(E("reset", "tid", s.Tid, "sc", scm))
	log := &layerLog{}
	rl := &recoverLog{}
	copts, hopts := buildOpts(s.Opts, s.Side, log, rl, rec, 0, s.Grouping)
	emitApply(s.Opts, rec)
	if s.Proto == "" {
		s.Proto = "connect"
	}
	copts = append(copts, clientProtoOpts(s.Proto)...)
	if s.Side == "client" {
		hopts = nil
	} else {
		copts = clientProtoOpts(s.Proto)
	}
	kind := s.Kind
	if kind == "" {
		kind = "unary"
		if s.Shape == "stream" {
			kind = "bidi"
		}
	}
	nsend := 2
	armed := true
	pv := func(at int) error {
		if armed && s.Panic != nil && s.Panic.Value == "fail" && s.Panic.At == at {
			return connect.NewError(connect.CodeAborted, errors.New("handler")) // no panic: an ordinary error
		}
		if armed && s.Panic != nil && s.Panic.Value != "none" && s.Panic.At == at {
			panic(panicValue(s.Panic.Value))
		}
		return nil
	}
	// option values are reusable: generated constructors apply the same values once per procedure. Build a
	// first, unused client and handler from them and observe the second application.
	if s.Tid%2 == 0 {
		first, firstH := copts, hopts
		if s.Tid%4 == 0 {
			// ... and that earlier construction had something else in front of the shared values: an interceptor "Z"
			// and a recovery function of its own, neither of which has any business in the observed call
			z := connect.WithInterceptors(&namedInterceptor{name: "Z", log: log, side: s.Side})
			first = append([]connect.ClientOption{z}, copts...)
			firstH = append([]connect.HandlerOption{z, connect.WithRecover(func(context.Context, connect.Spec, http.Header, any) error {
				rl.mu.Lock()
				rl.calls += 100
				rl.mu.Unlock()
				return connect.NewError(connect.CodeUnknown, errors.New("another service's recovery function"))
			})}, hopts...)
		}
		_ = connect.NewClient[BV, BV](&memTransport{h: http.NotFoundHandler(), major: 2}, "http://verif.test"+e2eProc, first...)
		_ = connect.NewUnaryHandler("/verif.v1.Svc/Other", func(context.Context, *connect.Request[BV]) (*connect.Response[BV], error) {
			return connect.NewResponse(&BV{}), nil
		}, firstH...)
	}
	var h *connect.Handler
	switch kind {
	case "unary":
		h = connect.NewUnaryHandler(e2eProc, func(_ context.Context, r *connect.Request[BV]) (*connect.Response[BV], error) {
			if err := pv(0); err != nil {
				return nil, err
			}
			return connect.NewResponse(&BV{Value: []byte{1}}), nil
		}, hopts...)
	case "client":
		h = connect.NewClientStreamHandler(e2eProc, func(_ context.Context, cs *connect.ClientStream[BV]) (*connect.Response[BV], error) {
			if err := pv(0); err != nil {
				return nil, err
			}
			for cs.Receive() {
			}
			if err := pv(1); err != nil {
				return nil, err
			}
			return connect.NewResponse(&BV{Value: []byte{1}}), nil
		}, hopts...)
	case "server":
		h = connect.NewServerStreamHandler(e2eProc, func(_ context.Context, r *connect.Request[BV], ss *connect.ServerStream[BV]) error {
			ss.ResponseTrailer().Set("X-Rec-Trl", "t") // set before anything can panic: it reaches the client either way
			for i := 0; i < nsend; i++ {
				if err := pv(i); err != nil {
					return err
				}
				if err := ss.Send(&BV{Value: []byte{byte(i + 1)}}); err != nil {
					return err
				}
			}
			return pv(nsend)
		}, hopts...)
	default:
		h = connect.NewBidiStreamHandler(e2eProc, func(_ context.Context, bs *connect.BidiStream[BV, BV]) error {
			bs.ResponseTrailer().Set("X-Rec-Trl", "t")
			if err := pv(0); err != nil {
				return err
			}
			n := 0
			for {
				m, err := bs.Receive()
				if err != nil {
					break
				}
				n++
				if err := bs.Send(m); err != nil {
					return err
				}
				if err := pv(n); err != nil {
					return err
				}
			}
			return nil
		}, hopts...)
	}
	aborted := false
	wrapped := http.HandlerFunc(func(w http.ResponseWriter, r *http.Request) {
		defer func() {
			if p := recover(); p != nil {
				if p == http.ErrAbortHandler { //nolint
					aborted = true
				}
				panic(p)
			}
		}()
		h.ServeHTTP(w, r)
	})
	client := connect.NewClient[BV, BV](&memTransport{h: wrapped, major: 2}, "http://verif.test"+e2eProc, copts...)
	// client and handler exist: the program goes on to use its slices for something else (every third scenario). The
	// chains were fixed at construction.
	if s.Tid%3 == 2 {
		for _, sl := range log.slices {
			for i := range sl {
				sl[i] = &namedInterceptor{name: "Y", log: log, side: s.Side}
			}
		}
	}
	ctx := context.Background()
	var cerr error
	got := 0
	// a client and a handler serve many calls: for two scenarios out of three the observed call is the second one
	// (the first one is an ordinary call that does not panic; what it logged is discarded)
	rounds := 1
	if s.Tid%3 != 0 {
		rounds = 2
		armed = false
	}
	// every third scenario, on a client's streaming calls: the first call is parked while the library builds its
	// chain, and the observed call is made meanwhile (the client's very first streaming calls overlap)
	var parked chan struct{}
	if s.Side == "client" && kind != "unary" && s.Tid%3 == 1 {
		log.gate, log.inside = make(chan struct{}), make(chan struct{})
		parked = make(chan struct{})
		go func() {
			defer close(parked)
			if kind == "server" {
				if ss, err := client.CallServerStream(ctx, connect.NewRequest(&BV{Value: []byte{9}})); err == nil {
					for ss.Receive() {
					}
					_ = ss.Close()
				}
				return
			}
			bs := client.CallBidiStream(ctx)
			_ = bs.CloseRequest()
			_, _ = bs.Receive()
			_ = bs.CloseResponse()
		}()
		select {
		case <-log.inside:
			rounds = 1 // the parked call is the earlier one
		case <-parked: // no interceptor was consulted at all (an empty chain): nothing to overlap with
		}
	}
	for round := 1; round <= rounds; round++ {
		if round == rounds {
			armed = true
			log.mu.Lock()
			log.enter, log.exit, log.sendpre, log.recvpost = nil, nil, nil, nil
			log.mu.Unlock()
			rl.mu.Lock()
			rl.calls, rl.seen = 0, nil
			rl.mu.Unlock()
			cerr, got, aborted = nil, 0, false
		}
		switch kind {
		case "unary":
			_, cerr = client.CallUnary(ctx, connect.NewRequest(&BV{Value: []byte{9}}))
			if cerr == nil {
				got = 1
			}
		case "client":
			cs := client.CallClientStream(ctx)
			_ = cs.Send(&BV{Value: []byte{9}})
			_, cerr = cs.CloseAndReceive()
			if cerr == nil {
				got = 1
			}
		case "server":
			ss, err := client.CallServerStream(ctx, connect.NewRequest(&BV{Value: []byte{9}}))
			if err != nil {
				cerr = err
				break
			}
			for ss.Receive() {
				got++
			}
			cerr = ss.Err()
			_ = ss.Close()
		default:
			bs := client.CallBidiStream(ctx)
			for i := 0; i < nsend; i++ {
				if err := bs.Send(&BV{Value: []byte{byte(i + 1)}}); err != nil {
					break
				}
				if _, err := bs.Receive(); err != nil {
					if !isEOF(err) {
						cerr = err
					}
					break
				}
				got++
			}
			_ = bs.CloseRequest()
			if cerr == nil {
				if _, err := bs.Receive(); err != nil && !isEOF(err) {
					cerr = err
				}
			}
			_ = bs.CloseResponse()
		}
	}
	if parked != nil {
		// what the observed call logged is kept; the parked call may finish now
		log.mu.Lock()
		e1, e2, e3, e4 := log.enter, log.exit, log.sendpre, log.recvpost
		log.mu.Unlock()
		close(log.gate)
		<-parked
		log.mu.Lock()
		log.enter, log.exit, log.sendpre, log.recvpost = e1, e2, e3, e4
		log.mu.Unlock()
	}
	log.mu.Lock()
	nzs := func(a []string) []string {
		if a == nil {
			return []string{}
		}
		return a
	}
	// one Send / Receive per layer is what the scenario needs: report the first round only
	first := func(a []string) []string {
		seen := map[string]bool{}
		out := []string{}
		for _, n := range a {
			if seen[n] {
				break
			}
			seen[n] = true
			out = append(out, n)
		}
		return out
	}
	rec.Add(E("obs", "enter", nzs(log.enter), "exit", nzs(log.exit), "sendpre", first(log.sendpre), "recvpost", first(log.recvpost)))
	log.mu.Unlock()
	rl.mu.Lock()
	msg := ""
	var ce *connect.Error
	if errors.As(cerr, &ce) {
		msg = ce.Message()
	}
	recMeta, recTrl, recDet := "", "", ""
	if ce != nil {
		recMeta, recTrl = ce.Meta().Get("X-Rec-Meta"), ce.Meta().Get("X-Rec-Trl")
		for _, d := range ce.Details() {
			var sv wrapperspb.StringValue
			if a, ok := d.(*anypb.Any); ok && a.UnmarshalTo(&sv) == nil {
				recDet += sv.GetValue()
			} else {
				recDet += "?"
			}
		}
	}
	rec.Add(E("outcome", "ok", cerr == nil, "code", codeOf(cerr), "msg", msg, "got", got, "handle_calls", rl.calls,
		"seen", nzs(rl.seen), "aborted", aborted, "recmeta", recMeta, "rectrl", recTrl, "recdet", recDet))
	rl.mu.Unlock()
}
