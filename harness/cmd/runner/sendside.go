package main

import (
	"bytes"
	"context"
	"encoding/json"
	"fmt"
	"io"
	"net/http"
	"net/http/httptest"
	"sync"
	"time"

	"github.com/bufbuild/connect-go/verifharness/refcodec"

	connect "github.com/bufbuild/connect-go"
)

// Family "sendside": the sending half of a client call against a transport that consumes exactly `cut` bytes of
// the request body and then stops cooperating (C04 write faults, C15 "while sending", C14 "Sends fail instead of
// blocking").  Specification: spec/SendSide.tla, trace specification spec/TraceSendSide.tla.

type sendScenario struct {
	Tid   int    `json:"tid"`
	Proto string `json:"proto"`
	Kind  string `json:"kind"`
	Sizes []int  `json:"sizes"` // encoded payload sizes: an envelope is 5 + size bytes
	Cut   int    `json:"cut"`
	Fault string `json:"fault"` // err | ctxc | ctxd
	// Poison: index (1-based) of a message the client's codec refuses to marshal, 0 = none
	Poison int `json:"poison"`
}

func init() { families["sendside"] = runSendSide }

// faultyHTTP consumes cut-1 bytes of the request body, lets the fault strike, consumes one more byte and then
// behaves like a transport whose request failed.
type faultyHTTP struct {
	s    *sendScenario
	mctx *manualCtx
	done chan struct{}
}

func (f *faultyHTTP) Do(req *http.Request) (*http.Response, error) {
	defer close(f.done)
	buf := make([]byte, 1)
	take := func(n int) bool {
		for i := 0; i < n; i++ {
			if _, err := io.ReadFull(req.Body, buf); err != nil {
				return false
			}
		}
		return true
	}
	alive := true
	if f.s.Cut > 1 {
		alive = take(f.s.Cut - 1)
	}
	switch f.s.Fault {
	case "ctxc":
		f.mctx.end("canceled")
	case "ctxd":
		f.mctx.end("expired")
	}
	if alive && f.s.Cut > 0 {
		take(1)
	}
	if f.s.Fault == "err" {
		return nil, fmt.Errorf("Post %q: %w", req.URL, errInjected)
	}
	// nothing more is consumed: the round trip fails with the context's error, as net/http's does
	<-req.Context().Done()
	return nil, req.Context().Err()
}

func runSendSide(raw json.RawMessage, seed int64, rec *Rec) {
	var s sendScenario
	if err := json.Unmarshal(raw, &s); err != nil {
		panic(err)
	}
	var scm map[string]any
	_ = json.Unmarshal(raw, &scm)
	delete(scm, "tid")
	rec.Add(E("reset", "tid", s.Tid, "sc", scm))
	if s.Kind == "hserver" || s.Kind == "hbidi" {
		runSendSideHandler(&s, rec)
		return
	}
	mctx := &manualCtx{Context: context.Background(), done: make(chan struct{}), deadline: s.Fault == "ctxd"}
	tr := &faultyHTTP{s: &s, mctx: mctx, done: make(chan struct{})}
	copts := append(clientProtoOpts(s.Proto), connect.WithInterceptors(connLogger{rec: rec}))
	if s.Poison > 0 {
		copts = append(copts, connect.WithCodec(verifCodec{}))
	}
	client := connect.NewClient[BV, BV](tr, "http://verif.test/verif.v1.Svc/Method", copts...)
	msg := func(i int) *BV {
		if i+1 == s.Poison {
			return &BV{Value: poisonValue}
		}
		v := make([]byte, valueForEncodedLen(s.Sizes[i]))
		v[0] = byte(i + 1)
		return &BV{Value: v}
	}
	finished := make(chan struct{})
	go func() {
		defer close(finished)
		defer func() {
			if p := recover(); p != nil {
				rec.Add(E("panic", "value", fmt.Sprint(p), "stacks", allStacks()))
			}
		}()
		var err error
		switch s.Kind {
		case "unary":
			_, err = client.CallUnary(mctx, connect.NewRequest(msg(0)))
		case "server":
			var st *connect.ServerStreamForClient[BV]
			st, err = client.CallServerStream(mctx, connect.NewRequest(msg(0)))
			if err == nil {
				for st.Receive() {
				}
				err = st.Err()
				_ = st.Close()
			}
		case "client":
			st := client.CallClientStream(mctx)
			for i := range s.Sizes {
				_ = st.Send(msg(i))
			}
			_, err = st.CloseAndReceive()
		default:
			st := client.CallBidiStream(mctx)
			for i := range s.Sizes {
				_ = st.Send(msg(i))
			}
			_ = st.CloseRequest()
			_, err = st.Receive()
			_ = st.CloseResponse()
		}
		rec.Add(E("final", "ok", err == nil, "code", codeOf(err)))
	}()
	select {
	case <-finished:
	case <-time.After(15 * time.Second):
		rec.Add(E("stuck", "op", "program", "stacks", allStacks()))
		mctx.end("canceled")
		return
	}
	select {
	case <-tr.done:
	case <-time.After(5 * time.Second):
		// (a request that was never started has no transport goroutine)
	}
	mctx.end("canceled")
}

// ---- handler side: a ResponseWriter that accepts `cut` Write calls and refuses the rest (the client went away) ----

type failingRW struct {
	hdr    http.Header
	writes int
	cut    int
	once   bool // only write number cut+1 is refused
}

func (w *failingRW) Header() http.Header { return w.hdr }
func (w *failingRW) WriteHeader(int)     {}
func (w *failingRW) Flush()              {}
func (w *failingRW) Write(p []byte) (int, error) {
	w.writes++
	if (w.once && w.writes == w.cut+1) || (!w.once && w.writes > w.cut) {
		return 0, errInjected
	}
	return len(p), nil
}

type sendSideKey struct{}

type sendSideState struct {
	rec   *Rec
	n     int
	first error
}

var sendSideHandlers sync.Map

func sendSideHandler(kind string) *connect.Handler {
	if h, ok := sendSideHandlers.Load(kind); ok {
		return h.(*connect.Handler)
	}
	send := func(st *sendSideState, f func(*BV) error) {
		for i := 0; i < st.n; i++ {
			st.rec.Add(E("call", "op", "send"))
			err := f(&BV{Value: []byte{byte(i + 1)}})
			res := "ok"
			if err != nil {
				res = "fail"
				if st.first == nil {
					st.first = err
				}
			}
			st.rec.Add(E("ret", "op", "send", "res", res, "code", codeOf(err)))
		}
	}
	var h *connect.Handler
	if kind == "hserver" {
		h = connect.NewServerStreamHandler("/verif.v1.Svc/Method", func(ctx context.Context, _ *connect.Request[BV], ss *connect.ServerStream[BV]) error {
			send(ctx.Value(sendSideKey{}).(*sendSideState), ss.Send)
			return nil
		})
	} else {
		h = connect.NewBidiStreamHandler("/verif.v1.Svc/Method", func(ctx context.Context, bs *connect.BidiStream[BV, BV]) error {
			send(ctx.Value(sendSideKey{}).(*sendSideState), bs.Send)
			return nil
		})
	}
	actual, _ := sendSideHandlers.LoadOrStore(kind, h)
	return actual.(*connect.Handler)
}

func runSendSideHandler(s *sendScenario, rec *Rec) {
	st := &sendSideState{rec: rec, n: len(s.Sizes)}
	body := refcodec.Envelope(0, marshalBV([]byte{1}))
	req := httptest.NewRequest(http.MethodPost, "http://verif.test/verif.v1.Svc/Method", bytes.NewReader(body))
	req.ProtoMajor, req.ProtoMinor = 2, 0
	req.Header.Set("Content-Type", contentType(s.Proto, false, "proto"))
	rw := &failingRW{hdr: http.Header{}, cut: s.Cut, once: s.Fault == "werr1"}
	finished := make(chan struct{})
	go func() {
		defer close(finished)
		defer func() {
			if p := recover(); p != nil {
				rec.Add(E("panic", "value", fmt.Sprint(p), "stacks", allStacks()))
			}
		}()
		sendSideHandler(s.Kind).ServeHTTP(rw, req.WithContext(context.WithValue(req.Context(), sendSideKey{}, st)))
		rec.Add(E("final", "ok", st.first == nil, "code", codeOf(st.first)))
	}()
	select {
	case <-finished:
	case <-time.After(15 * time.Second):
		rec.Add(E("stuck", "op", "handler", "stacks", allStacks()))
	}
}
