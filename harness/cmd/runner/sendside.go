package main

import (
	"context"
	"encoding/json"
	"fmt"
	"io"
	"net/http"
	"time"

	connect "github.com/bufbuild/connect-go"
)

// Family "sendside": the sending half of a client call against a transport that consumes exactly `cut` bytes of
// the request body and then stops cooperating (C04 write faults, C15 "while sending", C14 "Sends fail instead of
// blocking").  Specification: spec/SendSide.tla, trace specification spec/TraceSendSide.tla.

type sendScenario struct {
	Tid   int    `json:"tid"`
	Proto string `json:"proto"`
	Kind  string `json:"kind"`
	Sizes []int  `json:"sizes"` // encoded payload sizes: an envelope is 5 + size bytes
	Cut   int    `json:"cut"`
	Fault string `json:"fault"` // err | ctxc | ctxd
	// Poison: index (1-based) of a message the client's codec refuses to marshal, 0 = none
	Poison int `json:"poison"`
}

func init() { families["sendside"] = runSendSide }

// faultyHTTP consumes cut-1 bytes of the request body, lets the fault strike, consumes one more byte and then
// behaves like a transport whose request failed.
type faultyHTTP struct {
	s    *sendScenario
	mctx *manualCtx
	done chan struct{}
}

func (f *faultyHTTP) Do(req *http.Request) (*http.Response, error) {
	defer close(f.done)
	buf := make([]byte, 1)
	take := func(n int) bool {
		for i := 0; i < n; i++ {
			if _, err := io.ReadFull(req.Body, buf); err != nil {
				return false
			}
		}
		return true
	}
	alive := true
	if f.s.Cut > 1 {
		alive = take(f.s.Cut - 1)
	}
	switch f.s.Fault {
	case "ctxc":
		f.mctx.end("canceled")
	case "ctxd":
		f.mctx.end("expired")
	}
	if alive && f.s.Cut > 0 {
		take(1)
	}
	if f.s.Fault == "err" {
		return nil, fmt.Errorf("Post %q: %w", req.URL, errInjected)
	}
	// nothing more is consumed: the round trip fails with the context's error, as net/http's does
	<-req.Context().Done()
	return nil, req.Context().Err()
}

func runSendSide(raw json.RawMessage, seed int64, rec *Rec) {
	var s sendScenario
	if err := json.Unmarshal(raw, &s); err != nil {
		panic(err)
	}
	var scm map[string]any
	_ = json.Unmarshal(raw, &scm)
	delete(scm, "tid")
	rec.Add(E("reset", "tid", s.Tid, "sc", scm))
	mctx := &manualCtx{Context: context.Background(), done: make(chan struct{}), deadline: s.Fault == "ctxd"}
	tr := &faultyHTTP{s: &s, mctx: mctx, done: make(chan struct{})}
	copts := append(clientProtoOpts(s.Proto), connect.WithInterceptors(connLogger{rec: rec}))
	if s.Poison > 0 {
		copts = append(copts, connect.WithCodec(verifCodec{}))
	}
	client := connect.NewClient[BV, BV](tr, "http://verif.test/verif.v1.Svc/Method", copts...)
	msg := func(i int) *BV {
		if i+1 == s.Poison {
			return &BV{Value: poisonValue}
		}
		v := make([]byte, valueForEncodedLen(s.Sizes[i]))
		v[0] = byte(i + 1)
		return &BV{Value: v}
	}
	finished := make(chan struct{})
	go func() {
		defer close(finished)
		defer func() {
			if p := recover(); p != nil {
				rec.Add(E("panic", "value", fmt.Sprint(p), "stacks", allStacks()))
			}
		}()
		var err error
		switch s.Kind {
		case "unary":
			_, err = client.CallUnary(mctx, connect.NewRequest(msg(0)))
		case "server":
			var st *connect.ServerStreamForClient[BV]
			st, err = client.CallServerStream(mctx, connect.NewRequest(msg(0)))
			if err == nil {
				for st.Receive() {
				}
				err = st.Err()
				_ = st.Close()
			}
		case "client":
			st := client.CallClientStream(mctx)
			for i := range s.Sizes {
				_ = st.Send(msg(i))
			}
			_, err = st.CloseAndReceive()
		default:
			st := client.CallBidiStream(mctx)
			for i := range s.Sizes {
				_ = st.Send(msg(i))
			}
			_ = st.CloseRequest()
			_, err = st.Receive()
			_ = st.CloseResponse()
		}
		rec.Add(E("final", "ok", err == nil, "code", codeOf(err)))
	}()
	select {
	case <-finished:
	case <-time.After(15 * time.Second):
		rec.Add(E("stuck", "op", "program", "stacks", allStacks()))
		mctx.end("canceled")
		return
	}
	select {
	case <-tr.done:
	case <-time.After(5 * time.Second):
		// (a request that was never started has no transport goroutine)
	}
	mctx.end("canceled")
}
