package main

import (
	"bytes"
	"encoding/json"
	"fmt"
	"go/ast"
	"go/parser"
	"go/token"
	"os"
	"os/exec"
	"path/filepath"
	"strconv"
	"strings"
	"sync"

	pingv1 "github.com/bufbuild/connect-go/internal/gen/connect/ping/v1"
	"google.golang.org/protobuf/proto"
	"google.golang.org/protobuf/reflect/protodesc"
	"google.golang.org/protobuf/types/descriptorpb"
	"google.golang.org/protobuf/types/known/emptypb"
	"google.golang.org/protobuf/types/pluginpb"
)

// Family "gen": the freshly built protoc-gen-connect-go is fed a CodeGeneratorRequest built from the
// scenario's descriptor; the output is parsed (go/parser), type-checked (go build in a scratch module
// against the library) and the routing facts are extracted from the AST (C17).
// Environment: VERIF_PLUGIN (plugin binary), VERIF_GEN_ROOT (scratch module root), VERIF_REPO.

type genMethod struct {
	Name string `json:"name"`
	Kind string `json:"kind"`
}
type genService struct {
	Name    string      `json:"name"`
	Methods []genMethod `json:"methods"`
}
type genScenario struct {
	Tid        int          `json:"tid"`
	Pkg        string       `json:"pkg"`
	Services   []genService `json:"services"`
	GoPkg      string       `json:"gopkg"`
	Deprecated bool         `json:"deprecated"`
	Golden     bool         `json:"golden"`
	Build      bool         `json:"build"`
	Sibling    bool         `json:"sibling"`
	Msgs       bool         `json:"msgs"` // methods use messages of this file: the output imports the file's own Go package
}

func init() { families["gen"] = runGen }

func runPlugin(req *pluginpb.CodeGeneratorRequest) (*pluginpb.CodeGeneratorResponse, string, error) {
	in, err := proto.Marshal(req)
	if err != nil {
		return nil, "", err
	}
	cmd := exec.Command(os.Getenv("VERIF_PLUGIN"))
	cmd.Stdin = bytes.NewReader(in)
	var out, errb bytes.Buffer
	cmd.Stdout, cmd.Stderr = &out, &errb
	if err := cmd.Run(); err != nil {
		return nil, errb.String(), err
	}
	var resp pluginpb.CodeGeneratorResponse
	if err := proto.Unmarshal(out.Bytes(), &resp); err != nil {
		return nil, errb.String(), err
	}
	return &resp, errb.String(), nil
}

func strLit(e ast.Expr) (string, bool) {
	if b, ok := e.(*ast.BasicLit); ok && b.Kind == token.STRING {
		s, err := strconv.Unquote(b.Value)
		return s, err == nil
	}
	return "", false
}

// selName: "connect_go.NewUnaryHandler" -> "NewUnaryHandler"; also through generic instantiation
func selName(e ast.Expr) string {
	switch x := e.(type) {
	case *ast.SelectorExpr:
		return x.Sel.Name
	case *ast.IndexExpr:
		return selName(x.X)
	case *ast.IndexListExpr:
		return selName(x.X)
	case *ast.Ident:
		return x.Name
	}
	return ""
}

type extracted struct {
	Prefix  string              `json:"prefix"`
	Methods []map[string]string `json:"methods"`
}

// extract reads the routing facts of each service, in source order, from the generated file.
func extract(f *ast.File) []extracted {
	var res []extracted
	clientURLs := map[string][]string{} // constructor name -> urls in order
	clientCalls := map[string]string{}  // "recvType.Method" -> Call* used
	var order []string
	for _, d := range f.Decls {
		fn, ok := d.(*ast.FuncDecl)
		if !ok || fn.Body == nil {
			continue
		}
		name := fn.Name.Name
		switch {
		case fn.Recv == nil && strings.HasPrefix(name, "New") && strings.HasSuffix(name, "Client"):
			ast.Inspect(fn.Body, func(n ast.Node) bool {
				call, ok := n.(*ast.CallExpr)
				if !ok || selName(call.Fun) != "NewClient" || len(call.Args) < 2 {
					return true
				}
				if bin, ok := call.Args[1].(*ast.BinaryExpr); ok {
					if s, ok := strLit(bin.Y); ok {
						clientURLs[name] = append(clientURLs[name], s)
					}
				}
				return true
			})
		case fn.Recv == nil && strings.HasPrefix(name, "New") && strings.HasSuffix(name, "Handler"):
			e := extracted{Methods: []map[string]string{}}
			ast.Inspect(fn.Body, func(n ast.Node) bool {
				switch x := n.(type) {
				case *ast.CallExpr:
					if selName(x.Fun) == "Handle" && len(x.Args) == 2 {
						m := map[string]string{}
						m["handle"], _ = strLit(x.Args[0])
						if inner, ok := x.Args[1].(*ast.CallExpr); ok {
							m["ctor"] = selName(inner.Fun)
							if len(inner.Args) > 0 {
								m["spec"], _ = strLit(inner.Args[0])
							}
							if len(inner.Args) > 1 {
								m["impl"] = selName(inner.Args[1])
							}
						}
						e.Methods = append(e.Methods, m)
					}
				case *ast.ReturnStmt:
					if len(x.Results) == 2 {
						if s, ok := strLit(x.Results[0]); ok {
							e.Prefix = s
						}
					}
				}
				return true
			})
			res = append(res, e)
			order = append(order, strings.TrimSuffix(strings.TrimPrefix(name, "New"), "Handler"))
		case fn.Recv != nil:
			// client methods: return c.<field>.Call*(...)
			ast.Inspect(fn.Body, func(n ast.Node) bool {
				if call, ok := n.(*ast.CallExpr); ok {
					if c := selName(call.Fun); strings.HasPrefix(c, "Call") {
						recv := ""
						if len(fn.Recv.List) == 1 {
							if st, ok := fn.Recv.List[0].Type.(*ast.StarExpr); ok {
								recv = selName(st.X)
							}
						}
						clientCalls[recv+"."+name] = c
					}
				}
				return true
			})
		}
	}
	for i := range res {
		base := order[i]
		urls := clientURLs["New"+base+"Client"]
		for j, m := range res[i].Methods {
			if j < len(urls) {
				m["url"] = urls[j]
			}
			// the unexported client type is named after the service (possibly escaped with an underscore)
			for key, call := range clientCalls {
				dot := strings.LastIndexByte(key, '.')
				if key[dot+1:] == m["impl"] && strings.EqualFold(strings.TrimLeft(key[:dot], "_"), base+"Client") {
					m["call"] = call
				}
			}
			delete(m, "impl")
		}
	}
	return res
}

func runGen(raw json.RawMessage, seed int64, rec *Rec) {
	var s genScenario
	if err := json.Unmarshal(raw, &s); err != nil {
		panic(err)
	}
	var scm map[string]any
	_ = json.Unmarshal(raw, &scm)
	delete(scm, "tid")
	rec.Add(E("reset", "tid", s.Tid, "sc", scm))
	if s.Golden {
		// the checked-in ping.connect.go from the checked-in descriptors
		fd := protodesc.ToFileDescriptorProto(pingv1.File_connect_ping_v1_ping_proto)
		req := &pluginpb.CodeGeneratorRequest{FileToGenerate: []string{fd.GetName()},
			ProtoFile: []*descriptorpb.FileDescriptorProto{fd}}
		resp, stderr, err := runPlugin(req)
		same := false
		detail := stderr
		if err == nil && resp.GetError() == "" && len(resp.File) == 1 {
			want, rerr := os.ReadFile(filepath.Join(os.Getenv("VERIF_REPO"), "internal/gen/connect/ping/v1/pingv1connect/ping.connect.go"))
			// the checked-in file additionally carries a licence header and the .proto file's comments (the
			// compiled descriptor has no source info): compare the code, not the comments
			same = rerr == nil && stripComments(string(want)) == stripComments(resp.File[0].GetContent())
			if !same {
				detail = "generated code differs from the checked-in file"
			}
		}
		rec.Add(E("golden", "same", same, "detail", detail))
		return
	}
	empty := protodesc.ToFileDescriptorProto(emptypb.File_google_protobuf_empty_proto)
	fd := &descriptorpb.FileDescriptorProto{
		Name:       proto.String("t/test.proto"),
		Syntax:     proto.String("proto3"),
		Dependency: []string{"google/protobuf/empty.proto"},
		Options:    &descriptorpb.FileOptions{GoPackage: proto.String(s.GoPkg)},
	}
	if s.Pkg != "" {
		fd.Package = proto.String(s.Pkg)
	}
	inType, outType := ".google.protobuf.Empty", ".google.protobuf.Empty"
	if s.Msgs {
		fd.MessageType = []*descriptorpb.DescriptorProto{{Name: proto.String("Req")}, {Name: proto.String("Res")}}
		prefix := "."
		if s.Pkg != "" {
			prefix = "." + s.Pkg + "."
		}
		inType, outType = prefix+"Req", prefix+"Res"
	}
	for _, sv := range s.Services {
		sd := &descriptorpb.ServiceDescriptorProto{Name: proto.String(sv.Name)}
		if s.Deprecated {
			sd.Options = &descriptorpb.ServiceOptions{Deprecated: proto.Bool(true)}
		}
		for _, m := range sv.Methods {
			md := &descriptorpb.MethodDescriptorProto{Name: proto.String(m.Name),
				InputType: proto.String(inType), OutputType: proto.String(outType)}
			if m.Kind == "client" || m.Kind == "bidi" {
				md.ClientStreaming = proto.Bool(true)
			}
			if m.Kind == "server" || m.Kind == "bidi" {
				md.ServerStreaming = proto.Bool(true)
			}
			if s.Deprecated {
				md.Options = &descriptorpb.MethodOptions{Deprecated: proto.Bool(true)}
			}
			sd.Method = append(sd.Method, md)
		}
		fd.Service = append(fd.Service, sd)
	}
	// leading comments of every shape (one line, several lines, paragraphs, odd characters) on services and methods:
	// whatever the comments are, the output is valid Go with the same routing facts
	comments := []string{" One line.\n", " First line.\n Second line.\n", " First paragraph.\n\n Second paragraph, with */ and // and \"quotes\".\n",
		"", " Trailing blank line.\n\n"}
	sci := &descriptorpb.SourceCodeInfo{}
	for si, sv := range s.Services {
		sci.Location = append(sci.Location, &descriptorpb.SourceCodeInfo_Location{
			Path: []int32{6, int32(si)}, Span: []int32{int32(10 * si), 0, 1},
			LeadingComments: proto.String(comments[(si+1)%len(comments)])})
		for mi := range sv.Methods {
			if c := comments[(s.Tid+mi)%len(comments)]; c != "" {
				sci.Location = append(sci.Location, &descriptorpb.SourceCodeInfo_Location{
					Path: []int32{6, int32(si), 2, int32(mi)}, Span: []int32{int32(10*si + mi + 1), 2, 3},
					LeadingComments: proto.String(c)})
			}
		}
	}
	fd.SourceCodeInfo = sci
	req := &pluginpb.CodeGeneratorRequest{FileToGenerate: []string{"t/test.proto"},
		ProtoFile: []*descriptorpb.FileDescriptorProto{empty, fd}}
	if s.Sibling {
		// the same invocation generates another file first: another package, the same service and method names, at
		// least one service whatever this file declares
		sib := proto.Clone(fd).(*descriptorpb.FileDescriptorProto)
		sib.Name = proto.String("t0/other.proto")
		sib.Package = proto.String("other.v0")
		sib.Options = &descriptorpb.FileOptions{GoPackage: proto.String("example.com/gen/t0;t0pb")}
		sib.SourceCodeInfo = nil
		sib.Service = append(sib.Service, &descriptorpb.ServiceDescriptorProto{Name: proto.String("OnlyHere"),
			Method: []*descriptorpb.MethodDescriptorProto{{Name: proto.String("Do"),
				InputType: proto.String(".google.protobuf.Empty"), OutputType: proto.String(".google.protobuf.Empty")}}})
		req.FileToGenerate = []string{"t0/other.proto", "t/test.proto"}
		req.ProtoFile = []*descriptorpb.FileDescriptorProto{empty, sib, fd}
	}
	resp, stderr, err := runPlugin(req)
	if err != nil || resp.GetError() != "" {
		msg := stderr
		if resp != nil {
			msg += resp.GetError()
		}
		rec.Add(E("gen", "ok", false, "deterministic", false, "parses", false, "builds", false, "files", 0,
			"services", []extracted{}, "detail", msg))
		return
	}
	resp2, _, err2 := runPlugin(req)
	det := err2 == nil && proto.Equal(resp, resp2)
	parses, builds := true, true
	var services []extracted
	detail := ""
	nfiles := 0
	for _, f := range resp.File {
		if strings.Contains(f.GetName(), "other.connect.go") {
			continue // the sibling's output
		}
		nfiles++
		file, perr := parser.ParseFile(token.NewFileSet(), f.GetName(), f.GetContent(), 0)
		if perr != nil {
			parses, builds = false, false
			detail = perr.Error()
			continue
		}
		services = append(services, extract(file)...)
		if s.Build {
			if s.Msgs {
				// what protoc-gen-go would have written for the file's messages, as far as type-checking goes
				ensureMessageStub(s.GoPkg)
			}
			dir := filepath.Join(os.Getenv("VERIF_GEN_ROOT"), fmt.Sprintf("s%d", s.Tid))
			_ = os.MkdirAll(dir, 0o755)
			_ = os.WriteFile(filepath.Join(dir, "x.connect.go"), []byte(f.GetContent()), 0o644)
			cmd := exec.Command("go", "build", "./"+filepath.Base(dir))
			cmd.Dir = os.Getenv("VERIF_GEN_ROOT")
			if out, berr := cmd.CombinedOutput(); berr != nil {
				builds = false
				detail = string(out)
			}
			_ = os.RemoveAll(dir)
		}
	}
	if services == nil {
		services = []extracted{}
	}
	rec.Add(E("gen", "ok", true, "deterministic", det, "parses", parses, "builds", builds, "files", nfiles,
		"services", services, "detail", detail))
}

func stripComments(src string) string {
	var sb strings.Builder
	for _, line := range strings.Split(src, "\n") {
		t := strings.TrimSpace(line)
		if t == "" || strings.HasPrefix(t, "//") {
			continue
		}
		sb.WriteString(line)
		sb.WriteByte('\n')
	}
	return sb.String()
}

var stubMu sync.Mutex

// ensureMessageStub writes a Go package with the types Req and Res at the import path of goPkg ("path" or "path;name").
func ensureMessageStub(goPkg string) {
	stubMu.Lock()
	defer stubMu.Unlock()
	path, name := goPkg, ""
	if i := strings.Index(goPkg, ";"); i >= 0 {
		path, name = goPkg[:i], goPkg[i+1:]
	}
	if name == "" {
		name = path[strings.LastIndex(path, "/")+1:]
	}
	dir := filepath.Join(os.Getenv("VERIF_GEN_ROOT"), strings.TrimPrefix(path, "example.com/gen/"))
	file := filepath.Join(dir, "stub.go")
	if _, err := os.Stat(file); err == nil {
		return
	}
	_ = os.MkdirAll(dir, 0o755)
	_ = os.WriteFile(file, []byte("package "+name+"\n\ntype Req struct{}\n\ntype Res struct{}\n"), 0o644)
}
