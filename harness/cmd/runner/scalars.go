package main

import (
	"bytes"
	"io"
	"context"
	"encoding/base64"
	"encoding/json"
	"errors"
	"fmt"
	"math"
	"math/rand"
	"net/http"
	"net/http/httptest"
	"runtime"
	"strconv"
	"strings"
	"sync"
	"sync/atomic"
	"time"

	connect "github.com/bufbuild/connect-go"
	"google.golang.org/protobuf/proto"
	"google.golang.org/protobuf/types/known/structpb"
	"github.com/bufbuild/connect-go/verifharness/refcodec"
)

// Family "scalars": the small wire codecs (C18) and timeout encoding (C10), applied to vectors that
// TLC enumerates from spec/Scalars.tla, plus exhaustive / random sweeps with intrinsic checks.

type scalarScenario struct {
	Tid   int    `json:"tid"`
	Op    string `json:"op"`
	In    []int  `json:"in"`
	C     int64  `json:"c"`
	D     int64  `json:"d"`
	Text  string `json:"text"`
	From  int64  `json:"from"`
	To    int64  `json:"to"`
	N     int    `json:"n"`
	Proto string `json:"proto"`
	Secs  int64  `json:"secs"`
	// Prev: the same *connect.Request was used for an earlier call: -1 no earlier call, 0 an earlier call without
	// deadline, n > 0 an earlier call whose deadline was n seconds away
	Prev int64 `json:"prev"`
	// spec_reuse: how the *connect.Request was used before this call
	Used string `json:"used"`
	// spec_reuse: the base URL the client is built with (path prefixes, trailing slashes)
	Base string `json:"base"`
}

// specSpy records the Spec a client-side interceptor sees.
type specSpy struct{ seen *connect.Spec }

func (s specSpy) WrapUnary(next connect.UnaryFunc) connect.UnaryFunc {
	return func(ctx context.Context, r connect.AnyRequest) (connect.AnyResponse, error) {
		*s.seen = r.Spec()
		return next(ctx, r)
	}
}
func (s specSpy) WrapStreamingClient(next connect.StreamingClientFunc) connect.StreamingClientFunc {
	return next
}
func (s specSpy) WrapStreamingHandler(next connect.StreamingHandlerFunc) connect.StreamingHandlerFunc {
	return next
}

func init() { families["scalars"] = runScalars }

func toBytes(a []int) []byte {
	b := make([]byte, len(a))
	for i, v := range a {
		b[i] = byte(v)
	}
	return b
}

func toInts(b []byte) []int {
	a := make([]int, len(b))
	for i, v := range b {
		a[i] = int(v)
	}
	return a
}

// deadlineCtx reports a deadline of "now + d" at the moment it is asked, and remembers when it was asked.
type deadlineCtx struct {
	context.Context
	d     time.Duration
	asked atomic.Int64
}

func (c *deadlineCtx) Deadline() (time.Time, bool) {
	now := time.Now()
	c.asked.CompareAndSwap(0, now.UnixNano())
	return now.Add(c.d), true
}

func runScalars(raw json.RawMessage, seed int64, rec *Rec) {
	var s scalarScenario
	if err := json.Unmarshal(raw, &s); err != nil {
		panic(err)
	}
	var scm map[string]any
	_ = json.Unmarshal(raw, &scm)
	delete(scm, "tid")
	rec.Add(E("reset", "tid", s.Tid, "sc", scm))
	rng := rand.New(rand.NewSource(seed))
	switch s.Op {
	case "pct":
		in := string(toBytes(s.In))
		enc := connect.VerifGRPCPercentEncode(in)
		dec := connect.VerifGRPCPercentDecode(enc)
		rec.Add(E("result", "enc", toInts([]byte(enc)), "dec", toInts([]byte(dec))))
	case "pctany":
		out := connect.VerifGRPCPercentDecode(string(toBytes(s.In)))
		rec.Add(E("result", "returned", true, "len", len(out)))
	case "code":
		c := connect.Code(uint32(s.C))
		text := c.String()
		var back connect.Code
		err := back.UnmarshalText([]byte(text))
		mt, _ := c.MarshalText()
		rec.Add(E("result", "text", text, "http", connect.VerifConnectCodeToHTTP(c), "rt", err == nil && back == c,
			"marshal", string(mt)))
	case "parse":
		var c connect.Code
		err := c.UnmarshalText([]byte(s.Text))
		rec.Add(E("result", "ok", err == nil, "c", int64(c)))
	case "b64":
		in := toBytes(s.In)
		enc := connect.EncodeBinaryHeader(in)
		d1, e1 := connect.DecodeBinaryHeader(enc)
		d2, e2 := connect.DecodeBinaryHeader(base64.StdEncoding.EncodeToString(in))
		rec.Add(E("result", "rt", toInts(d1), "rtpadded", toInts(d2), "ok", e1 == nil && e2 == nil,
			"unpadded", !strings.Contains(enc, "=")))
	case "timeout":
		text, err := connect.VerifGRPCEncodeTimeout(time.Duration(s.D))
		rec.Add(E("result", "text", text, "ok", err == nil))
	case "sweep_codes":
		// every code value in [from, to): String/UnmarshalText round trip, 4xx/5xx status
		var bad atomic.Int64
		var first atomic.Int64
		first.Store(-1)
		var wg sync.WaitGroup
		workers := runtime.NumCPU()
		span := (s.To - s.From + int64(workers) - 1) / int64(workers)
		for w := 0; w < workers; w++ {
			lo, hi := s.From+int64(w)*span, s.From+int64(w+1)*span
			if hi > s.To {
				hi = s.To
			}
			wg.Add(1)
			go func() {
				defer wg.Done()
				for v := lo; v < hi; v++ {
					c := connect.Code(uint32(v))
					var back connect.Code
					err := back.UnmarshalText([]byte(c.String()))
					h := connect.VerifConnectCodeToHTTP(c)
					if err != nil || back != c || h < 400 || h > 599 {
						bad.Add(1)
						first.CompareAndSwap(-1, v)
					}
				}
			}()
		}
		wg.Wait()
		rec.Add(E("result", "bad", bad.Load(), "count", strconv.FormatInt(s.To-s.From, 10), "first", first.Load()))
	case "sweep_pct":
		bad := 0
		for i := 0; i < s.N; i++ {
			b := make([]byte, rng.Intn(600))
			rng.Read(b)
			if i%3 == 0 { // dense in the interesting characters
				for j := range b {
					const dense = "%%%\x00\x7f ~\xc3\xa9AZ09"
					b[j] = dense[rng.Intn(len(dense))]
				}
			}
			enc := connect.VerifGRPCPercentEncode(string(b))
			ok := connect.VerifGRPCPercentDecode(enc) == string(b)
			for j := 0; j < len(enc); j++ {
				if enc[j] < 0x20 || enc[j] > 0x7e {
					ok = false
				}
			}
			_ = connect.VerifGRPCPercentDecode(string(b)) // arbitrary input must not panic
			d, err := connect.DecodeBinaryHeader(connect.EncodeBinaryHeader(b))
			if err != nil || string(d) != string(b) {
				ok = false
			}
			d, err = connect.DecodeBinaryHeader(base64.StdEncoding.EncodeToString(b))
			if err != nil || string(d) != string(b) {
				ok = false
			}
			_, _ = connect.DecodeBinaryHeader(string(b))
			if !ok {
				bad++
			}
		}
		rec.Add(E("result", "bad", bad, "count", strconv.Itoa(s.N), "first", -1))
	case "sweep_timeout":
		// random and boundary durations over the whole 63-bit range: the encoding parses back (with the
		// library's own parser) to a value that is never longer and shorter by less than one unit / 0.01 %
		bad, first := 0, int64(-1)
		check := func(d time.Duration) {
			text, err := connect.VerifGRPCEncodeTimeout(d)
			ok := err == nil && len(text) >= 2 && len(text) <= 9
			if ok {
				back, has, perr := connect.VerifGRPCParseTimeout(text)
				ok = perr == nil && has && back <= d && (d-back) < unitOf(text) &&
					(text[len(text)-1] == 'n' || float64(d-back) < float64(d)/10000)
			}
			if !ok {
				bad++
				if first < 0 {
					first = int64(d)
				}
			}
		}
		units := []time.Duration{time.Nanosecond, time.Microsecond, time.Millisecond, time.Second, time.Minute, time.Hour}
		for _, u := range units {
			for k := int64(1); k <= 100000000; k *= 10 {
				for _, delta := range []int64{-1, 0, 1} {
					if v := k + delta; v > 0 && float64(v)*float64(u) < math.MaxInt64 {
						check(time.Duration(v) * u)
						check(time.Duration(v)*u + 1)
						check(time.Duration(v)*u - 1)
					}
				}
			}
		}
		check(math.MaxInt64)
		for i := 0; i < s.N; i++ {
			check(time.Duration(rng.Int63()>>uint(rng.Intn(63))) + 1)
		}
		rec.Add(E("result", "bad", bad, "count", strconv.Itoa(s.N), "first", first))
	case "grpcmsg_e2e":
		// the handler's Grpc-Message header for an error with this message
		msg := string(toBytes(s.In))
		h := connect.NewUnaryHandler("/verif.v1.Svc/M", func(context.Context, *connect.Request[BV]) (*connect.Response[BV], error) {
			return nil, connect.NewError(connect.CodeInternal, errors.New(msg))
		})
		req := httptest.NewRequest("POST", "http://verif.test/verif.v1.Svc/M", strings.NewReader(string(refcodec.Envelope(0, nil))))
		req.ProtoMajor, req.ProtoMinor = 2, 0
		req.Header.Set("Content-Type", "application/grpc-web+proto")
		rw := httptest.NewRecorder()
		h.ServeHTTP(rw, req)
		got := rw.Result().Header.Get("Grpc-Message")
		rec.Add(E("result", "enc", toInts([]byte(got)), "dec", toInts([]byte(refcodec.PercentDecode(got)))))
	case "deadline_e2e", "nodeadline_e2e":
		// the timeout header a client sends for a context whose deadline is `secs` seconds away (or that has none),
		// possibly on a *connect.Request that was used for an earlier call
		var hdr http.Header
		var at int64
		fake := &fakeHTTP{}
		fake.respond = func(req *http.Request) (*http.Response, error) {
			at = time.Now().UnixNano()
			hdr = req.Header.Clone()
			return nil, errors.New("verif: not sent")
		}
		client := connect.NewClient[BV, BV](fake, "http://verif.test/verif.v1.Svc/M", clientProtoOpts(s.Proto)...)
		request := connect.NewRequest(&BV{})
		if s.Prev == 0 {
			_, _ = client.CallUnary(context.Background(), request)
		} else if s.Prev > 0 {
			_, _ = client.CallUnary(&deadlineCtx{Context: context.Background(), d: time.Duration(s.Prev) * time.Second}, request)
		}
		fake.wg.Wait()
		hdr = nil
		var asked int64
		if s.Op == "deadline_e2e" {
			ctx := &deadlineCtx{Context: context.Background(), d: time.Duration(s.Secs)*time.Second + time.Duration(s.D)}
			_, _ = client.CallUnary(ctx, request)
			asked = ctx.asked.Load()
		} else {
			_, _ = client.CallUnary(context.Background(), request)
			asked = at
		}
		fake.wg.Wait()
		name := "Connect-Timeout-Ms"
		other := "Grpc-Timeout"
		if s.Proto != "connect" {
			name, other = other, name
		}
		val := ""
		count := 0
		if hdr != nil {
			val = hdr.Get(name)
			count = len(hdr.Values(name)) + len(hdr.Values(other))
		}
		chars := []string{}
		for _, r := range val {
			chars = append(chars, string(r))
		}
		slack := (at - asked) / 1e6 // measured bracket in ms between Deadline() and the header being final
		rec.Add(E("result", "chars", chars, "slack_ms", slack+1, "present", val != "", "count", count))
	case "deadline_wait":
		// a stream created under a deadline `secs` seconds away, first used `d` milliseconds later: the timeout on the
		// wire must not be longer than what is left when the request goes out
		var hdr http.Header
		var at time.Time
		fake := &fakeHTTP{}
		fake.respond = func(req *http.Request) (*http.Response, error) {
			at = time.Now()
			hdr = req.Header.Clone()
			return nil, errors.New("verif: not sent")
		}
		client := connect.NewClient[BV, BV](fake, "http://verif.test/verif.v1.Svc/M", clientProtoOpts(s.Proto)...)
		t0 := time.Now()
		ctx, cancel := context.WithDeadline(context.Background(), t0.Add(time.Duration(s.Secs)*time.Second))
		var before time.Time // just before the operation that makes the library send the request
		if s.Used == "bidi" {
			bs := client.CallBidiStream(ctx)
			time.Sleep(time.Duration(s.D) * time.Millisecond)
			before = time.Now()
			_ = bs.Send(&BV{})
			_ = bs.CloseRequest()
			_, _ = bs.Receive()
			_ = bs.CloseResponse()
		} else {
			cs := client.CallClientStream(ctx)
			time.Sleep(time.Duration(s.D) * time.Millisecond)
			before = time.Now()
			_ = cs.Send(&BV{})
			_, _ = cs.CloseAndReceive()
		}
		cancel()
		fake.wg.Wait()
		name := "Connect-Timeout-Ms"
		if s.Proto != "connect" {
			name = "Grpc-Timeout"
		}
		val := ""
		if hdr != nil {
			val = hdr.Get(name)
		}
		chars := []string{}
		for _, r := range val {
			chars = append(chars, string(r))
		}
		// (before_ms rounds down, waited_ms up: the header was computed between the two instants)
		rec.Add(E("result", "chars", chars, "present", val != "", "before_ms", before.Sub(t0).Milliseconds(),
			"waited_ms", at.Sub(t0).Milliseconds()+1))
	case "handler_ctx":
		// the handler's context ends on the server side alone (a deadline conveyed in the timeout header by a peer that
		// does not enforce it itself, or the server cancelling the request) and the handler returns ctx.Err() as is: the
		// client, still listening, must be told deadline_exceeded / canceled (C15, last sentence)
		var hctx atomic.Bool
		wait := func(ctx context.Context) error {
			if c, ok := ctx.Value(sendSideKey{}).(context.CancelFunc); ok {
				c() // "the server cancels the call"
			}
			<-ctx.Done()
			hctx.Store(true)
			return ctx.Err()
		}
		var h *connect.Handler
		switch s.Used {
		case "unary":
			h = connect.NewUnaryHandler("/verif.v1.Svc/M", func(ctx context.Context, _ *connect.Request[BV]) (*connect.Response[BV], error) {
				return nil, wait(ctx)
			})
		case "client":
			h = connect.NewClientStreamHandler("/verif.v1.Svc/M", func(ctx context.Context, _ *connect.ClientStream[BV]) (*connect.Response[BV], error) {
				return nil, wait(ctx)
			})
		case "server":
			h = connect.NewServerStreamHandler("/verif.v1.Svc/M", func(ctx context.Context, _ *connect.Request[BV], ss *connect.ServerStream[BV]) error {
				for i := 0; i < s.N; i++ {
					_ = ss.Send(&BV{Value: []byte{1}})
				}
				return wait(ctx)
			})
		default:
			h = connect.NewBidiStreamHandler("/verif.v1.Svc/M", func(ctx context.Context, bs *connect.BidiStream[BV, BV]) error {
				for i := 0; i < s.N; i++ {
					_ = bs.Send(&BV{Value: []byte{1}})
				}
				return wait(ctx)
			})
		}
		mw := http.HandlerFunc(func(w http.ResponseWriter, r *http.Request) {
			switch s.Text {
			case "deadline", "early":
				if s.Proto == "connect" {
					r.Header.Set("Connect-Timeout-Ms", "60")
				} else {
					r.Header.Set("Grpc-Timeout", "60m")
				}
				if s.Text == "early" {
					// the deadline has passed before the library gets to call the handler function: the request body
					// takes longer to arrive than the timeout allows
					r.Header.Set("Connect-Timeout-Ms", "1")
					r.Header.Set("Grpc-Timeout", "1m")
					r.Body = &slowBody{ReadCloser: r.Body, wait: 40 * time.Millisecond}
				}
				h.ServeHTTP(w, r)
			default:
				ctx, cancel := context.WithCancel(r.Context())
				defer cancel()
				h.ServeHTTP(w, r.WithContext(context.WithValue(ctx, sendSideKey{}, cancel)))
			}
		})
		client := connect.NewClient[BV, BV](&memTransport{h: mw, major: 2}, "http://verif.test/verif.v1.Svc/M", clientProtoOpts(s.Proto)...)
		ctx, stop := context.WithCancel(context.Background())
		done := make(chan struct{})
		var err error
		got := 0
		go func() {
			defer close(done)
			switch s.Used {
			case "unary":
				_, err = client.CallUnary(ctx, connect.NewRequest(&BV{}))
			case "client":
				cs := client.CallClientStream(ctx)
				_ = cs.Send(&BV{})
				_, err = cs.CloseAndReceive()
			case "server":
				var st *connect.ServerStreamForClient[BV]
				st, err = client.CallServerStream(ctx, connect.NewRequest(&BV{}))
				if err == nil {
					for st.Receive() {
						got++
					}
					err = st.Err()
					_ = st.Close()
				}
			default:
				bs := client.CallBidiStream(ctx)
				_ = bs.Send(&BV{})
				_ = bs.CloseRequest()
				for {
					if _, err = bs.Receive(); err != nil {
						break
					}
					got++
				}
				_ = bs.CloseResponse()
			}
		}()
		stuck := false
		select {
		case <-done:
		case <-time.After(20 * time.Second):
			stuck = true
			stop()
			<-done
		}
		stop()
		rec.Add(E("result", "ok", err == nil, "code", codeOf(err), "got", got, "hctx", hctx.Load(), "stuck", stuck))
	case "late_response":
		// the call's context is cancelled while HTTPClient.Do is still in flight; the response head and the cancellation
		// race and the response wins: Do returns a response after the cancellation.  Whoever finishes the call, that
		// response body must be closed (C14), and what fails fails as canceled (C15).
		entered := make(chan struct{})
		gate := make(chan struct{})
		var closed atomic.Bool
		var once sync.Once
		var cancelCall context.CancelFunc
		lt := httpClientFunc(func(req *http.Request) (*http.Response, error) {
			go func() { _, _ = io.Copy(io.Discard, req.Body) }()
			once.Do(func() { close(entered) })
			<-gate
			hdr := http.Header{}
			hdr.Set("Content-Type", contentType(s.Proto, s.Used == "unary", "proto"))
			status := 200
			if s.N != 0 {
				// an error page of some intermediary: no protocol-level error in it
				status = s.N
				hdr.Set("Content-Type", "text/plain")
			}
			body := &lateBody{ctx: req.Context(), closed: &closed}
			if s.Text == "body" {
				body.cancel = cancelCall // the response head wins the race, the body does not
			}
			return &http.Response{Status: statusLine(status), StatusCode: status, Proto: "HTTP/2.0", ProtoMajor: 2, Header: hdr, Trailer: http.Header{},
				Body: body, Request: req}, nil
		})
		client := connect.NewClient[BV, BV](lt, "http://verif.test/verif.v1.Svc/M", clientProtoOpts(s.Proto)...)
		ctx, cancel := context.WithCancel(context.Background())
		cancelCall = cancel
		done := make(chan struct{})
		var err error
		go func() {
			defer close(done)
			switch s.Used {
			case "unary":
				_, err = client.CallUnary(ctx, connect.NewRequest(&BV{}))
			case "client":
				cs := client.CallClientStream(ctx)
				_ = cs.Send(&BV{})
				_, err = cs.CloseAndReceive()
			case "server":
				var st *connect.ServerStreamForClient[BV]
				st, err = client.CallServerStream(ctx, connect.NewRequest(&BV{}))
				if err == nil {
					for st.Receive() {
					}
					err = st.Err()
					_ = st.Close()
				}
			default:
				bs := client.CallBidiStream(ctx)
				_ = bs.Send(&BV{})
				_ = bs.CloseRequest()
				_, err = bs.Receive()
				_ = bs.CloseResponse()
			}
		}()
		stuck := false
		select {
		case <-entered:
		case <-time.After(10 * time.Second):
			stuck = true
		}
		if s.Text != "body" {
			cancel()
			time.Sleep(time.Duration(s.D) * time.Millisecond) // (the API calls may or may not have returned by now)
		}
		close(gate)
		select {
		case <-done:
		case <-time.After(10 * time.Second):
			stuck = true
		}
		for i := 0; i < 3000 && !closed.Load(); i++ {
			time.Sleep(time.Millisecond)
		}
		rec.Add(E("result", "ok", err == nil, "code", codeOf(err), "closed", closed.Load(), "stuck", stuck))
	case "recvfail_live":
		hend := make(chan string, 1)
		// a bidi call whose handler answers the first message and then waits for the client; the client cannot take the
		// answer (it is above its read limit): Receive reports that and RETURNS, although the call is still alive --
		// then the program closes its two sides in order (C14 "every API call returns in bounded time")
		h := connect.NewBidiStreamHandler("/verif.v1.Svc/M", func(_ context.Context, bs *connect.BidiStream[BV, BV]) error {
			if _, err := bs.Receive(); err != nil {
				return err
			}
			if err := bs.Send(&BV{Value: make([]byte, 64)}); err != nil {
				return err
			}
			for {
				if _, err := bs.Receive(); err != nil {
					// (drained: the client closed its side -- a clean end --, or gave up -- anything but a clean end)
					if errors.Is(err, io.EOF) {
						hend <- "eof"
					} else {
						hend <- "error"
					}
					return nil
				}
			}
		})
		srv := newLoopback(h, true)
		client := connect.NewClient[BV, BV](srv.client, srv.srv.URL+"/verif.v1.Svc/M",
			append(clientProtoOpts(s.Proto), connect.WithReadMaxBytes(16))...)
		ctx, stop := context.WithCancel(context.Background())
		bs := client.CallBidiStream(ctx)
		type opres struct {
			name string
			err  error
		}
		ops := []func() opres{
			func() opres { return opres{"send", bs.Send(&BV{Value: []byte{1}})} },
			func() opres { _, err := bs.Receive(); return opres{"recv", err} },
			func() opres { return opres{"closereq", bs.CloseRequest()} },
			func() opres { return opres{"closeresp", bs.CloseResponse()} },
		}
		codes := []int{}
		stuckAt := ""
		handlerSaw := "none"
		for i, op := range ops {
			if i == 2 {
				// the call has failed on the client (Receive reported it) while its request side was open: what does the
				// handler's pending Receive make of that?  Not a clean end (C04): the client never closed its side.
				select {
				case handlerSaw = <-hend:
				case <-time.After(3 * time.Second):
				}
			}
			ch := make(chan opres, 1)
			go func() { ch <- op() }()
			select {
			case r := <-ch:
				codes = append(codes, codeOf(r.err))
			case <-time.After(5 * time.Second):
				if stuckAt == "" {
					stuckAt = []string{"send", "recv", "closereq", "closeresp"}[len(codes)]
				}
				stop() // let the rest of the program and the server finish
				r := <-ch
				codes = append(codes, codeOf(r.err))
			}
		}
		stop()
		srv.Close()
		rec.Add(E("result", "codes", codes, "stuck_at", stuckAt, "hend", handlerSaw))
	case "recv_while_send":
		// C13 "one bidirectional stream may be sent on and received from concurrently": a Send that is blocked (a message
		// larger than the flow-control window, the handler not reading yet) does not keep Receive from delivering what
		// the handler has already sent
		got := make(chan struct{})
		var gaveUp atomic.Bool
		h := connect.NewBidiStreamHandler("/verif.v1.Svc/M", func(_ context.Context, bs *connect.BidiStream[BV, BV]) error {
			if err := bs.Send(&BV{Value: []byte("greeting")}); err != nil {
				return err
			}
			select { // start reading only once the client has the greeting
			case <-got:
			case <-time.After(4 * time.Second):
				gaveUp.Store(true)
			}
			for {
				if _, err := bs.Receive(); err != nil {
					return nil
				}
			}
		})
		srv := newLoopback(h, true)
		client := connect.NewClient[BV, BV](srv.client, srv.srv.URL+"/verif.v1.Svc/M", clientProtoOpts(s.Proto)...)
		ctx, stop := context.WithTimeout(context.Background(), 20*time.Second)
		bs := client.CallBidiStream(ctx)
		_ = bs.Send(&BV{Value: []byte{1}}) // the request is on its way, the handler runs
		sendDone := make(chan error, 1)
		go func() { sendDone <- bs.Send(&BV{Value: make([]byte, 8<<20)}) }()
		time.Sleep(50 * time.Millisecond) // the big Send is under way (and stuck behind the window)
		t0 := time.Now()
		m, rerr := bs.Receive()
		recvMs := time.Since(t0).Milliseconds()
		close(got)
		serr := <-sendDone
		_ = bs.CloseRequest()
		for {
			if _, err := bs.Receive(); err != nil {
				break
			}
		}
		_ = bs.CloseResponse()
		stop()
		srv.Close()
		rec.Add(E("result", "recv_ok", rerr == nil && m != nil && string(m.Value) == "greeting", "recv_late", recvMs > 2000,
			"send_ok", serr == nil, "gave_up", gaveUp.Load()))
	case "nested_e2e":
		// C01 for messages that are not flat: sub-messages, repeated and map fields, oneofs (google.protobuf.Struct /
		// ListValue / Value), fresh objects and one object modified between Sends, both directions
		mk := func(tag string, n int) *structpb.ListValue {
			inner, _ := structpb.NewStruct(map[string]any{"k": tag, "n": float64(n), "l": []any{tag, float64(n), nil, true}})
			return &structpb.ListValue{Values: []*structpb.Value{
				structpb.NewStringValue(tag), structpb.NewStructValue(inner), structpb.NewListValue(&structpb.ListValue{}),
				structpb.NewNumberValue(float64(n)),
			}}
		}
		same := true
		note := ""
		check := func(where string, got, want *structpb.ListValue) {
			if !proto.Equal(got, want) {
				same = false
				if note == "" {
					note = where
				}
			}
		}
		copts := clientProtoOpts(s.Proto)
		var hopts []connect.HandlerOption
		if s.Used == "gzip" {
			copts = append(copts, connect.WithSendGzip())
		} else {
			hopts = append(hopts, connect.WithCompressMinBytes(1<<20))
		}
		mux := http.NewServeMux()
		mux.Handle("/verif.v1.N/Unary", connect.NewUnaryHandler("/verif.v1.N/Unary", func(_ context.Context, r *connect.Request[structpb.ListValue]) (*connect.Response[structpb.ListValue], error) {
			check("handler unary", r.Msg, mk("u", 1))
			return connect.NewResponse(mk("ur", 2)), nil
		}, hopts...))
		mux.Handle("/verif.v1.N/Server", connect.NewServerStreamHandler("/verif.v1.N/Server", func(_ context.Context, r *connect.Request[structpb.ListValue], ss *connect.ServerStream[structpb.ListValue]) error {
			check("handler server", r.Msg, mk("s", 3))
			m := mk("s0", 0)
			for i := 1; i <= 3; i++ { // one object, modified between Sends
				m.Values[0] = structpb.NewStringValue(fmt.Sprintf("s%d", i))
				m.Values[1].GetStructValue().Fields["n"] = structpb.NewNumberValue(float64(i))
				if err := ss.Send(m); err != nil {
					return err
				}
			}
			return nil
		}, hopts...))
		mux.Handle("/verif.v1.N/Client", connect.NewClientStreamHandler("/verif.v1.N/Client", func(_ context.Context, cs *connect.ClientStream[structpb.ListValue]) (*connect.Response[structpb.ListValue], error) {
			i := 0
			for cs.Receive() {
				i++
				check("handler client", cs.Msg(), mk("c", i))
			}
			if i != 3 {
				same, note = false, "handler client count"
			}
			return connect.NewResponse(mk("cr", i)), cs.Err()
		}, hopts...))
		tr := &memTransport{h: mux, major: 2}
		ctx := context.Background()
		ures, err := connect.NewClient[structpb.ListValue, structpb.ListValue](tr, "http://verif.test/verif.v1.N/Unary", copts...).CallUnary(ctx, connect.NewRequest(mk("u", 1)))
		if err != nil {
			same, note = false, "unary: "+err.Error()
		} else {
			check("client unary", ures.Msg, mk("ur", 2))
		}
		ss, err := connect.NewClient[structpb.ListValue, structpb.ListValue](tr, "http://verif.test/verif.v1.N/Server", copts...).CallServerStream(ctx, connect.NewRequest(mk("s", 3)))
		if err != nil {
			same, note = false, "server: "+err.Error()
		} else {
			i := 0
			for ss.Receive() {
				i++
				want := mk("s0", 0)
				want.Values[0] = structpb.NewStringValue(fmt.Sprintf("s%d", i))
				want.Values[1].GetStructValue().Fields["n"] = structpb.NewNumberValue(float64(i))
				check("client server", ss.Msg(), want)
			}
			if i != 3 || ss.Err() != nil {
				same, note = false, fmt.Sprintf("server stream: %d messages, %v", i, ss.Err())
			}
			_ = ss.Close()
		}
		cs := connect.NewClient[structpb.ListValue, structpb.ListValue](tr, "http://verif.test/verif.v1.N/Client", copts...).CallClientStream(ctx)
		for i := 1; i <= 3; i++ {
			_ = cs.Send(mk("c", i)) // fresh objects
		}
		cres, err := cs.CloseAndReceive()
		if err != nil {
			same, note = false, "client: "+err.Error()
		} else {
			check("client client", cres.Msg, mk("cr", 3))
		}
		rec.Add(E("result", "same", same, "note", note))
	case "spec_kinds":
		// C12: the Spec of a streaming call -- procedure, stream type, which side -- as the client's interceptors, the
		// handler's interceptors and user code see it
		var cspec, hispec, uspec connect.Spec
		proc := "/verif.v1.K/Method"
		hic := connect.WithInterceptors(streamSpy{client: nil, handler: &hispec})
		var h *connect.Handler
		switch s.Used {
		case "client":
			h = connect.NewClientStreamHandler(proc, func(_ context.Context, cs *connect.ClientStream[BV]) (*connect.Response[BV], error) {
				for cs.Receive() {
				}
				return connect.NewResponse(&BV{}), nil
			}, hic)
		case "server":
			h = connect.NewServerStreamHandler(proc, func(_ context.Context, r *connect.Request[BV], _ *connect.ServerStream[BV]) error {
				uspec = r.Spec()
				return nil
			}, hic)
		default:
			h = connect.NewBidiStreamHandler(proc, func(_ context.Context, bs *connect.BidiStream[BV, BV]) error {
				for {
					if _, err := bs.Receive(); err != nil {
						return nil
					}
				}
			}, hic)
		}
		client := connect.NewClient[BV, BV](&memTransport{h: h, major: 2}, "http://verif.test/api/"+proc[1:],
			append(clientProtoOpts(s.Proto), connect.WithInterceptors(streamSpy{client: &cspec}))...)
		ctx := context.Background()
		var err error
		switch s.Used {
		case "client":
			cs := client.CallClientStream(ctx)
			_ = cs.Send(&BV{})
			_, err = cs.CloseAndReceive()
		case "server":
			var ss *connect.ServerStreamForClient[BV]
			ss, err = client.CallServerStream(ctx, connect.NewRequest(&BV{}))
			if err == nil {
				for ss.Receive() {
				}
				err = ss.Err()
				_ = ss.Close()
			}
		default:
			bs := client.CallBidiStream(ctx)
			_ = bs.Send(&BV{})
			_ = bs.CloseRequest()
			for {
				if _, rerr := bs.Receive(); rerr != nil {
					break
				}
			}
			_ = bs.CloseResponse()
		}
		if s.Used != "server" {
			uspec = hispec // (this version's ClientStream / BidiStream do not expose the Spec to user code)
		}
		rec.Add(E("result", "ok", err == nil,
			"cproc", cspec.Procedure, "cisclient", cspec.IsClient, "cstype", int(cspec.StreamType),
			"hproc", hispec.Procedure, "hisclient", hispec.IsClient, "hstype", int(hispec.StreamType),
			"uproc", uspec.Procedure, "uisclient", uspec.IsClient, "ustype", int(uspec.StreamType)))
	case "errmeta_limit":
		// a handler fails with metadata and a long message; the client's read limit is smaller than the error payload:
		// whatever code the client reports, the handler's metadata is in the error (C11 "on failure at least in the
		// error's metadata")
		h := connect.NewUnaryHandler("/verif.v1.Svc/M", func(_ context.Context, r *connect.Request[BV]) (*connect.Response[BV], error) {
			e := connect.NewError(connect.CodeResourceExhausted, errors.New(strings.Repeat("quota ", 60)))
			e.Meta().Add("X-M", "m1")
			e.Meta().Add("X-M", "m2")
			return nil, e
		})
		client := connect.NewClient[BV, BV](&memTransport{h: h, major: 2}, "http://verif.test/verif.v1.Svc/M",
			append(clientProtoOpts(s.Proto), connect.WithReadMaxBytes(100))...)
		_, err := client.CallUnary(context.Background(), connect.NewRequest(&BV{}))
		var ce *connect.Error
		meta := []string{}
		if errors.As(err, &ce) {
			meta = append(meta, ce.Meta().Values("X-M")...)
		}
		rec.Add(E("result", "ok", err == nil, "code", codeOf(err), "meta", meta))
	case "enc_reuse":
		// a unary *connect.Request sent twice through a client that compresses above a threshold: first with a large
		// message (compressed), then with a small one (not compressed). The second exchange must be consistent: the
		// encoding header names an algorithm iff the body is compressed, and the handler gets the small message.
		var seen []byte
		var hdrEnc string
		var bodyGz bool
		h := connect.NewUnaryHandler("/verif.v1.Svc/M", func(_ context.Context, r *connect.Request[BV]) (*connect.Response[BV], error) {
			seen = append([]byte(nil), r.Msg.Value...)
			return connect.NewResponse(&BV{}), nil
		})
		spy := http.HandlerFunc(func(w http.ResponseWriter, r *http.Request) {
			raw, _ := io.ReadAll(r.Body)
			hdrEnc = r.Header.Get("Content-Encoding") + r.Header.Get("Grpc-Encoding")
			if s.Proto == "connect" {
				bodyGz = len(raw) > 2 && raw[0] == 0x1f && raw[1] == 0x8b
			} else {
				bodyGz = len(raw) > 0 && raw[0]&1 == 1
			}
			r.Body = io.NopCloser(bytes.NewReader(raw))
			h.ServeHTTP(w, r)
		})
		client := connect.NewClient[BV, BV](&memTransport{h: spy, major: 2}, "http://verif.test/verif.v1.Svc/M",
			append(clientProtoOpts(s.Proto), connect.WithSendGzip(), connect.WithCompressMinBytes(64))...)
		big := bytes.Repeat([]byte{7}, 300)
		small := []byte{1, 2, 3}
		first, second := big, small
		if s.Used == "small-first" {
			first, second = small, big
		}
		req := connect.NewRequest(&BV{Value: first})
		_, err1 := client.CallUnary(context.Background(), req)
		req.Msg.Value = second
		_, err2 := client.CallUnary(context.Background(), req)
		rec.Add(E("result", "ok1", err1 == nil, "ok", err2 == nil, "code", codeOf(err2), "same", bytes.Equal(seen, second),
			"hdrenc", hdrEnc != "" && hdrEnc != "identity", "bodycomp", bodyGz, "large", len(second) >= 64))
	case "client_init_fail":
		// a client whose configuration is invalid (unknown send compression): every API of every call kind reports the
		// configuration error; nothing panics, blocks or reaches the transport
		var reached atomic.Int64
		fake := &fakeHTTP{}
		fake.respond = func(req *http.Request) (*http.Response, error) {
			reached.Add(1)
			return nil, errors.New("verif: not sent")
		}
		url, extra := "http://verif.test/verif.v1.Svc/M", []connect.ClientOption{connect.WithSendCompression("no-such-algorithm")}
		if s.Used == "badurl" {
			// accepted when the client is built (url.ParseRequestURI), refused when the request is (url.Parse)
			url, extra = "http://verif.test/verif.v1.Svc/M?#%", nil
		}
		client := connect.NewClient[BV, BV](fake, url, append(clientProtoOpts(s.Proto), extra...)...)
		codes := []int{}
		note := func(err error) { codes = append(codes, codeOf(err)) }
		ctx := context.Background()
		_, err := client.CallUnary(ctx, connect.NewRequest(&BV{}))
		note(err)
		cs := client.CallClientStream(ctx)
		cs.RequestHeader().Set("X-A", "b")
		note(cs.Send(&BV{}))
		_, err = cs.CloseAndReceive()
		note(err)
		ss, err := client.CallServerStream(ctx, connect.NewRequest(&BV{}))
		note(err)
		if ss != nil {
			ss.Receive()
			note(ss.Err())
			_ = ss.ResponseHeader()
			_ = ss.ResponseTrailer()
			note(ss.Close())
		}
		bs := client.CallBidiStream(ctx)
		bs.RequestHeader().Set("X-A", "b")
		note(bs.Send(&BV{}))
		_, err = bs.Receive()
		note(err)
		_ = bs.ResponseHeader()
		_ = bs.ResponseTrailer()
		note(bs.CloseRequest())
		note(bs.CloseResponse())
		fake.wg.Wait()
		rec.Add(E("result", "codes", codes, "reached", reached.Load()))
	case "spec_reuse":
		// C12: the Spec seen by the calling client's interceptors and by the handler's user code, for a Request that
		// is fresh, was already sent through another client, or is a handler's incoming request being forwarded
		const procA, procB = "/verif.v1.A/First", "/verif.v1.B/Second"
		var hspec connect.Spec
		// the procedure string the handler is constructed with comes in the same shapes as a client's URL: rooted,
		// unrooted, behind a path prefix, a full URL -- the Spec is labelled with the canonical path all the same
		hproc := procB
		switch s.Text {
		case "unrooted":
			hproc = procB[1:]
		case "prefix":
			hproc = "/api/v1" + procB
		case "fullurl":
			hproc = "https://verif.test:8443/api" + procB
		}
		hB := connect.NewUnaryHandler(hproc, func(_ context.Context, r *connect.Request[BV]) (*connect.Response[BV], error) {
			hspec = r.Spec()
			return connect.NewResponse(&BV{}), nil
		})
		var cspec connect.Spec
		mkB := func() *connect.Client[BV, BV] {
			base := s.Base
			if base == "" {
				base = "http://verif.test"
			}
			return connect.NewClient[BV, BV](&memTransport{h: hB, major: 2}, base+procB,
				append(clientProtoOpts(s.Proto), connect.WithInterceptors(specSpy{&cspec}))...)
		}
		var err error
		switch s.Used {
		case "otherclient":
			hA := connect.NewUnaryHandler(procA, func(_ context.Context, r *connect.Request[BV]) (*connect.Response[BV], error) {
				return connect.NewResponse(&BV{}), nil
			})
			req := connect.NewRequest(&BV{})
			_, _ = connect.NewClient[BV, BV](&memTransport{h: hA, major: 2}, "http://verif.test"+procA, clientProtoOpts(s.Proto)...).CallUnary(context.Background(), req)
			_, err = mkB().CallUnary(context.Background(), req)
		case "forwarded":
			hA := connect.NewUnaryHandler(procA, func(ctx context.Context, r *connect.Request[BV]) (*connect.Response[BV], error) {
				return mkB().CallUnary(ctx, r)
			})
			_, err = connect.NewClient[BV, BV](&memTransport{h: hA, major: 2}, "http://verif.test"+procA, clientProtoOpts(s.Proto)...).CallUnary(context.Background(), connect.NewRequest(&BV{}))
		default:
			_, err = mkB().CallUnary(context.Background(), connect.NewRequest(&BV{}))
		}
		rec.Add(E("result", "ok", err == nil, "cproc", cspec.Procedure, "cisclient", cspec.IsClient, "cstype", int(cspec.StreamType),
			"hproc", hspec.Procedure, "hisclient", hspec.IsClient, "hstype", int(hspec.StreamType)))
	default:
		panic("unknown scalar op " + s.Op)
	}
}

func unitOf(text string) time.Duration {
	switch text[len(text)-1] {
	case 'n':
		return time.Nanosecond
	case 'u':
		return time.Microsecond
	case 'm':
		return time.Millisecond
	case 'S':
		return time.Second
	case 'M':
		return time.Minute
	}
	return time.Hour
}

type httpClientFunc func(*http.Request) (*http.Response, error)

func (f httpClientFunc) Do(r *http.Request) (*http.Response, error) { return f(r) }

// lateBody is the body of a response that arrived after its request's context ended: reads fail with the context's
// error, like net/http's.
type lateBody struct {
	ctx    context.Context
	closed *atomic.Bool
	cancel context.CancelFunc // the call's context ends when the body is first read
}

func (b *lateBody) Read([]byte) (int, error) {
	if b.cancel != nil {
		b.cancel()
		<-b.ctx.Done()
	}
	if err := b.ctx.Err(); err != nil {
		return 0, err
	}
	return 0, io.EOF
}
func (b *lateBody) Close() error { b.closed.Store(true); return nil }

// slowBody delays its first Read.
type slowBody struct {
	io.ReadCloser
	wait time.Duration
	once sync.Once
}

func (b *slowBody) Read(p []byte) (int, error) {
	b.once.Do(func() { time.Sleep(b.wait) })
	return b.ReadCloser.Read(p)
}

// streamSpy records the Spec of a streaming call on the side it is installed on.
type streamSpy struct{ client, handler *connect.Spec }

func (s streamSpy) WrapUnary(next connect.UnaryFunc) connect.UnaryFunc { return next }
func (s streamSpy) WrapStreamingClient(next connect.StreamingClientFunc) connect.StreamingClientFunc {
	return func(ctx context.Context, spec connect.Spec) connect.StreamingClientConn {
		if s.client != nil {
			*s.client = spec
		}
		return next(ctx, spec)
	}
}
func (s streamSpy) WrapStreamingHandler(next connect.StreamingHandlerFunc) connect.StreamingHandlerFunc {
	return func(ctx context.Context, conn connect.StreamingHandlerConn) error {
		if s.handler != nil {
			*s.handler = conn.Spec()
		}
		return next(ctx, conn)
	}
}
