package main

import (
	"bytes"
	"context"
	"crypto/tls"
	"fmt"
	"io"
	"net"
	"net/http"
	"net/http/httptest"
	"strings"
	"sync"
)

// Tap records the raw exchange as the handler sees it: the request head and body bytes it read, the
// response status, header snapshot at commit time, body bytes and trailers.
type Tap struct {
	mu         sync.Mutex
	ReqMethod  string
	ReqProto   int
	ReqHeader  http.Header
	ReqBody    bytes.Buffer
	Status     int
	RespHeader http.Header
	RespBody   bytes.Buffer
	Trailer    http.Header
	Served     bool
	Panic      any
}

type teeBody struct {
	rc  io.ReadCloser
	tap *Tap
}

func (t *teeBody) Read(p []byte) (int, error) {
	n, err := t.rc.Read(p)
	if n > 0 {
		t.tap.mu.Lock()
		t.tap.ReqBody.Write(p[:n])
		t.tap.mu.Unlock()
	}
	return n, err
}
func (t *teeBody) Close() error { return t.rc.Close() }

// tapRW wraps a real ResponseWriter (loopback servers).
type tapRW struct {
	http.ResponseWriter
	tap   *Tap
	wrote bool
}

func (w *tapRW) commit(status int) {
	if w.wrote {
		return
	}
	w.wrote = true
	w.tap.mu.Lock()
	w.tap.Status = status
	w.tap.RespHeader = stripTrailerKeys(w.ResponseWriter.Header())
	w.tap.mu.Unlock()
}
func (w *tapRW) WriteHeader(s int) { w.commit(s); w.ResponseWriter.WriteHeader(s) }
func (w *tapRW) Write(p []byte) (int, error) {
	w.commit(200)
	w.tap.mu.Lock()
	w.tap.RespBody.Write(p)
	w.tap.mu.Unlock()
	return w.ResponseWriter.Write(p)
}
func (w *tapRW) Flush() {
	w.commit(200)
	if f, ok := w.ResponseWriter.(http.Flusher); ok {
		f.Flush()
	}
}
func (w *tapRW) finish() {
	w.commit(200)
	w.tap.mu.Lock()
	w.tap.Trailer = trailersOf(w.tap.RespHeader, w.ResponseWriter.Header())
	w.tap.Served = true
	w.tap.mu.Unlock()
}

func stripTrailerKeys(h http.Header) http.Header {
	out := http.Header{}
	for k, v := range h {
		if strings.HasPrefix(k, http.TrailerPrefix) {
			continue
		}
		out[k] = append([]string(nil), v...)
	}
	return out
}

// trailersOf: what net/http sends as trailers: keys announced in the committed "Trailer" header and
// keys written with http.TrailerPrefix.
func trailersOf(committed, live http.Header) http.Header {
	tr := http.Header{}
	for k, v := range live {
		if strings.HasPrefix(k, http.TrailerPrefix) {
			tr[strings.TrimPrefix(k, http.TrailerPrefix)] = append([]string(nil), v...)
		}
	}
	for _, line := range committed.Values("Trailer") {
		for _, k := range strings.Split(line, ",") {
			k = http.CanonicalHeaderKey(strings.TrimSpace(k))
			if v, ok := live[k]; ok {
				tr[k] = append([]string(nil), v...)
			}
		}
	}
	return tr
}

// tapped wraps a handler so that every exchange is recorded into the Tap found via newTap.
func tapped(h http.Handler, tap *Tap) http.Handler {
	return http.HandlerFunc(func(w http.ResponseWriter, r *http.Request) {
		tap.mu.Lock()
		tap.ReqMethod = r.Method
		tap.ReqProto = r.ProtoMajor
		tap.ReqHeader = r.Header.Clone()
		tap.mu.Unlock()
		r.Body = &teeBody{rc: r.Body, tap: tap}
		rw := &tapRW{ResponseWriter: w, tap: tap}
		defer func() {
			if p := recover(); p != nil {
				tap.mu.Lock()
				tap.Panic = p
				tap.mu.Unlock()
				rw.finish()
				panic(p)
			}
		}()
		h.ServeHTTP(rw, r)
		rw.finish()
	})
}

// ---- in-memory full-duplex transport ------------------------------------------------------------

// memRW is a pipe-backed ResponseWriter emulating net/http's server side: header snapshot at the first
// write, Flush, trailers through http.TrailerPrefix or a declared Trailer header.
type memRW struct {
	hdr    http.Header
	snap   http.Header
	status int
	wrote  bool
	pw     *bufPipe
	ready  chan struct{}
	once   sync.Once
	resp   *http.Response
}

func (w *memRW) Header() http.Header { return w.hdr }
func (w *memRW) WriteHeader(s int) {
	if w.wrote {
		return
	}
	w.wrote = true
	w.status = s
	w.snap = stripTrailerKeys(w.hdr)
	w.once.Do(func() { close(w.ready) })
}
func (w *memRW) Write(p []byte) (int, error) {
	if !w.wrote {
		w.WriteHeader(200)
	}
	return w.pw.Write(p)
}
func (w *memRW) Flush() {
	if !w.wrote {
		w.WriteHeader(200)
	}
}

type memTransport struct {
	h     http.Handler
	major int
}

func (t *memTransport) Do(req *http.Request) (*http.Response, error) {
	// the response body is buffered like a server's write buffer + socket: a handler can finish writing
	// a (small) response while the client is still busy sending
	pw := newBufPipe()
	pr := pw
	rw := &memRW{hdr: http.Header{}, pw: pw, ready: make(chan struct{})}
	sreq := req.Clone(req.Context())
	sreq.ProtoMajor, sreq.ProtoMinor = t.major, 0
	sreq.Proto = "HTTP/2.0"
	if t.major == 1 {
		sreq.ProtoMinor = 1
		sreq.Proto = "HTTP/1.1"
	}
	sreq.Body = req.Body
	sreq.RequestURI = req.URL.RequestURI()
	trailer := http.Header{}
	go func() {
		defer func() {
			if p := recover(); p != nil {
				// a handler panic tears the exchange down like net/http does
				_ = req.Body.Close()
				pw.CloseWithError(fmt.Errorf("handler panic: %v", p))
				rw.once.Do(func() { close(rw.ready) })
				return
			}
		}()
		t.h.ServeHTTP(rw, sreq)
		// like net/http, stop accepting request data once the handler has returned
		_ = req.Body.Close()
		if !rw.wrote {
			rw.WriteHeader(200)
		}
		for k, v := range trailersOf(rw.snap, rw.hdr) {
			trailer[k] = v
		}
		pw.CloseWithError(nil)
	}()
	select {
	case <-rw.ready:
	case <-req.Context().Done():
		return nil, req.Context().Err()
	}
	if !rw.wrote {
		return nil, fmt.Errorf("verif: handler panicked before responding")
	}
	return &http.Response{
		StatusCode: rw.status, Status: statusLine(rw.status), Proto: sreq.Proto,
		ProtoMajor: sreq.ProtoMajor, ProtoMinor: sreq.ProtoMinor,
		Header: rw.snap.Clone(), Trailer: trailer, Body: pr, Request: req,
	}, nil
}

// ---- loopback servers -----------------------------------------------------------------------------

type loopback struct {
	srv    *httptest.Server
	client *http.Client
}

func newLoopback(h http.Handler, h2 bool) *loopback {
	srv := httptest.NewUnstartedServer(h)
	if h2 {
		srv.EnableHTTP2 = true
		srv.StartTLS()
	} else {
		srv.Start()
	}
	c := srv.Client()
	if tr, ok := c.Transport.(*http.Transport); ok {
		tr.DisableCompression = true
		if !h2 {
			tr.ForceAttemptHTTP2 = false
			tr.TLSNextProto = map[string]func(string, *tls.Conn) http.RoundTripper{}
		}
		tr.DialContext = (&net.Dialer{}).DialContext
	}
	return &loopback{srv: srv, client: c}
}

func (l *loopback) Close() {
	l.client.CloseIdleConnections()
	l.srv.Close()
}

var _ = context.Background

// bufPipe: a pipe with an unbounded buffer. Write never blocks; Read blocks until data, end or error.
type bufPipe struct {
	mu     sync.Mutex
	cond   *sync.Cond
	buf    bytes.Buffer
	closed bool
	err    error
	rdone  bool
}

func newBufPipe() *bufPipe {
	p := &bufPipe{}
	p.cond = sync.NewCond(&p.mu)
	return p
}

func (p *bufPipe) Write(b []byte) (int, error) {
	p.mu.Lock()
	defer p.mu.Unlock()
	if p.rdone {
		return 0, io.ErrClosedPipe
	}
	if p.closed {
		return 0, io.ErrClosedPipe
	}
	p.buf.Write(b)
	p.cond.Broadcast()
	return len(b), nil
}

func (p *bufPipe) CloseWithError(err error) {
	p.mu.Lock()
	if !p.closed {
		p.closed = true
		p.err = err
	}
	p.cond.Broadcast()
	p.mu.Unlock()
}

func (p *bufPipe) Read(b []byte) (int, error) {
	p.mu.Lock()
	defer p.mu.Unlock()
	for p.buf.Len() == 0 && !p.closed && !p.rdone {
		p.cond.Wait()
	}
	if p.buf.Len() > 0 {
		return p.buf.Read(b)
	}
	if p.rdone {
		return 0, io.ErrClosedPipe
	}
	if p.err != nil {
		return 0, p.err
	}
	return 0, io.EOF
}

// Close is the reader's Close (http.Response.Body).
func (p *bufPipe) Close() error {
	p.mu.Lock()
	p.rdone = true
	p.cond.Broadcast()
	p.mu.Unlock()
	return nil
}
