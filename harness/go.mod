module github.com/bufbuild/connect-go/verifharness

go 1.21

require (
	github.com/bufbuild/connect-go v0.0.0
	google.golang.org/protobuf v1.28.0
)

replace github.com/bufbuild/connect-go => /repo
