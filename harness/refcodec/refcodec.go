// Package refcodec is the harness' own, independent reading and writing of the
// Connect, gRPC and gRPC-Web wire formats.  It deliberately shares no code with
// the library under test: envelopes, percent-encoding, base64 and the
// google.rpc.Status / Any messages are handled with encoding/binary,
// encoding/json, encoding/base64 and protowire only.
package refcodec

import (
	"bytes"
	"compress/gzip"
	"encoding/base64"
	"encoding/binary"
	"encoding/json"
	"fmt"
	"io"
	"net/http"
	"sort"
	"strconv"
	"strings"
	"sync"

	"google.golang.org/protobuf/encoding/protowire"
)

// ---------------------------------------------------------------- envelopes

type Frame struct {
	Flag    byte
	Payload []byte
}

func Envelope(flag byte, payload []byte) []byte {
	return EnvelopeDeclared(flag, uint32(len(payload)), payload)
}

// EnvelopeDeclared writes a prefix that declares `declared` bytes whatever the payload really is.
func EnvelopeDeclared(flag byte, declared uint32, payload []byte) []byte {
	out := make([]byte, 5, 5+len(payload))
	out[0] = flag
	binary.BigEndian.PutUint32(out[1:], declared)
	return append(out, payload...)
}

// ParseEnvelopes splits body into complete frames; rest holds trailing bytes that are not a complete frame.
func ParseEnvelopes(body []byte) (frames []Frame, rest []byte) {
	for len(body) >= 5 {
		n := int(binary.BigEndian.Uint32(body[1:5]))
		if len(body)-5 < n {
			break
		}
		frames = append(frames, Frame{Flag: body[0], Payload: body[5 : 5+n]})
		body = body[5+n:]
	}
	return frames, body
}

// ---------------------------------------------------------------- compression

// Huffman-only deflate: a valid gzip stream without the cost of the matcher's tables.
var gzPool = sync.Pool{New: func() any {
	w, _ := gzip.NewWriterLevel(io.Discard, gzip.HuffmanOnly)
	return w
}}

func Gzip(b []byte) []byte {
	var buf bytes.Buffer
	w := gzPool.Get().(*gzip.Writer)
	w.Reset(&buf)
	_, _ = w.Write(b)
	_ = w.Close()
	gzPool.Put(w)
	return buf.Bytes()
}

// GzipBest compresses with the real matcher (for payloads that must inflate enormously).
func GzipBest(b []byte) []byte {
	var buf bytes.Buffer
	w, _ := gzip.NewWriterLevel(&buf, gzip.BestCompression)
	_, _ = w.Write(b)
	_ = w.Close()
	return buf.Bytes()
}

func Gunzip(b []byte) ([]byte, error) {
	r, err := gzip.NewReader(bytes.NewReader(b))
	if err != nil {
		return nil, err
	}
	return io.ReadAll(r)
}

// "rev": a toy algorithm of the harness (marker byte + reversed bytes); lossless and detectable.
func Rev(b []byte) []byte {
	out := make([]byte, 0, len(b)+1)
	out = append(out, 0xA7)
	for i := len(b) - 1; i >= 0; i-- {
		out = append(out, b[i])
	}
	return out
}

func Unrev(b []byte) ([]byte, error) {
	if len(b) == 0 || b[0] != 0xA7 {
		return nil, fmt.Errorf("rev: bad marker")
	}
	return Rev(b[1:])[1:], nil
}

func Decompress(name string, b []byte) ([]byte, error) {
	switch name {
	case "", "identity":
		return b, nil
	case "gzip":
		return Gunzip(b)
	case "rev", "rev2":
		return Unrev(b)
	}
	return nil, fmt.Errorf("unknown compression %q", name)
}

func Compress(name string, b []byte) []byte {
	switch name {
	case "gzip":
		return Gzip(b)
	case "rev", "rev2":
		return Rev(b)
	}
	return b
}

// ---------------------------------------------------------------- scalars

// PercentEncode: gRPC "Percent-Byte-Encoded" grpc-message.
func PercentEncode(s string) string {
	var sb strings.Builder
	for i := 0; i < len(s); i++ {
		c := s[i]
		if c >= 0x20 && c <= 0x7E && c != '%' {
			sb.WriteByte(c)
		} else {
			sb.WriteString("%" + strings.ToUpper(strconv.FormatUint(uint64(c)+0x100, 16)[1:]))
		}
	}
	return sb.String()
}

func unhex(c byte) (byte, bool) {
	switch {
	case c >= '0' && c <= '9':
		return c - '0', true
	case c >= 'a' && c <= 'f':
		return c - 'a' + 10, true
	case c >= 'A' && c <= 'F':
		return c - 'A' + 10, true
	}
	return 0, false
}

// PercentDecode is lenient: malformed escapes are kept verbatim.
func PercentDecode(s string) string {
	var out []byte
	for i := 0; i < len(s); i++ {
		if s[i] == '%' && i+2 < len(s)+0 && i+2 <= len(s)-1 {
			h, ok1 := unhex(s[i+1])
			l, ok2 := unhex(s[i+2])
			if ok1 && ok2 {
				out = append(out, h<<4|l)
				i += 2
				continue
			}
		}
		out = append(out, s[i])
	}
	return string(out)
}

func B64Decode(s string) ([]byte, error) {
	s = strings.TrimRight(s, "=")
	return base64.RawStdEncoding.DecodeString(s)
}

func B64Encode(b []byte, padded bool) string {
	if padded {
		return base64.StdEncoding.EncodeToString(b)
	}
	return base64.RawStdEncoding.EncodeToString(b)
}

var codeNames = []string{"ok", "canceled", "unknown", "invalid_argument", "deadline_exceeded", "not_found",
	"already_exists", "permission_denied", "resource_exhausted", "failed_precondition", "aborted", "out_of_range",
	"unimplemented", "internal", "unavailable", "data_loss", "unauthenticated"}

func CodeName(c int) string {
	if c >= 1 && c <= 16 {
		return codeNames[c]
	}
	return "code_" + strconv.Itoa(c)
}

func CodeFromName(s string) (int, bool) {
	for i := 1; i <= 16; i++ {
		if codeNames[i] == s {
			return i, true
		}
	}
	return 0, false
}

// ConnectHTTPStatus: the Connect protocol's code -> HTTP status table.
func ConnectHTTPStatus(code int) int {
	switch code {
	case 1:
		return 408
	case 2:
		return 500
	case 3:
		return 400
	case 4:
		return 408
	case 5:
		return 404
	case 6:
		return 409
	case 7:
		return 403
	case 8:
		return 429
	case 9:
		return 412
	case 10:
		return 409
	case 11:
		return 400
	case 12:
		return 404
	case 13:
		return 500
	case 14:
		return 503
	case 15:
		return 500
	case 16:
		return 401
	}
	return 500
}

// ---------------------------------------------------------------- protobuf pieces

// Any is a decoded google.protobuf.Any.
type Any struct {
	TypeURL string
	Value   []byte
}

// Status is a decoded google.rpc.Status.
type Status struct {
	Code    int32
	Message string
	Details []Any
}

func ParseAny(b []byte) (Any, error) {
	var a Any
	for len(b) > 0 {
		num, typ, n := protowire.ConsumeTag(b)
		if n < 0 {
			return a, fmt.Errorf("any: bad tag")
		}
		b = b[n:]
		if typ != protowire.BytesType {
			m := protowire.ConsumeFieldValue(num, typ, b)
			if m < 0 {
				return a, fmt.Errorf("any: bad field")
			}
			b = b[m:]
			continue
		}
		v, m := protowire.ConsumeBytes(b)
		if m < 0 {
			return a, fmt.Errorf("any: bad bytes")
		}
		b = b[m:]
		switch num {
		case 1:
			a.TypeURL = string(v)
		case 2:
			a.Value = append([]byte(nil), v...)
		}
	}
	return a, nil
}

func ParseStatus(b []byte) (Status, error) {
	var s Status
	for len(b) > 0 {
		num, typ, n := protowire.ConsumeTag(b)
		if n < 0 {
			return s, fmt.Errorf("status: bad tag")
		}
		b = b[n:]
		switch {
		case num == 1 && typ == protowire.VarintType:
			v, m := protowire.ConsumeVarint(b)
			if m < 0 {
				return s, fmt.Errorf("status: bad varint")
			}
			s.Code = int32(v)
			b = b[m:]
		case num == 2 && typ == protowire.BytesType:
			v, m := protowire.ConsumeBytes(b)
			if m < 0 {
				return s, fmt.Errorf("status: bad message")
			}
			s.Message = string(v)
			b = b[m:]
		case num == 3 && typ == protowire.BytesType:
			v, m := protowire.ConsumeBytes(b)
			if m < 0 {
				return s, fmt.Errorf("status: bad detail")
			}
			a, err := ParseAny(v)
			if err != nil {
				return s, err
			}
			s.Details = append(s.Details, a)
			b = b[m:]
		default:
			m := protowire.ConsumeFieldValue(num, typ, b)
			if m < 0 {
				return s, fmt.Errorf("status: bad field")
			}
			b = b[m:]
		}
	}
	return s, nil
}

func MarshalAny(a Any) []byte {
	var b []byte
	if a.TypeURL != "" {
		b = protowire.AppendTag(b, 1, protowire.BytesType)
		b = protowire.AppendString(b, a.TypeURL)
	}
	if len(a.Value) > 0 {
		b = protowire.AppendTag(b, 2, protowire.BytesType)
		b = protowire.AppendBytes(b, a.Value)
	}
	return b
}

func MarshalStatus(s Status) []byte {
	var b []byte
	if s.Code != 0 {
		b = protowire.AppendTag(b, 1, protowire.VarintType)
		b = protowire.AppendVarint(b, uint64(uint32(s.Code)))
	}
	if s.Message != "" {
		b = protowire.AppendTag(b, 2, protowire.BytesType)
		b = protowire.AppendString(b, s.Message)
	}
	for _, d := range s.Details {
		b = protowire.AppendTag(b, 3, protowire.BytesType)
		b = protowire.AppendBytes(b, MarshalAny(d))
	}
	return b
}

// StringValue / BytesValue (field 1, length-delimited) as raw protobuf.
func WrapBytes(v []byte) []byte {
	if len(v) == 0 {
		return nil
	}
	b := protowire.AppendTag(nil, 1, protowire.BytesType)
	return protowire.AppendBytes(b, v)
}

// UnwrapBytes decodes a BytesValue/StringValue; ok=false if b is not one.
func UnwrapBytes(b []byte) (v []byte, ok bool) {
	for len(b) > 0 {
		num, typ, n := protowire.ConsumeTag(b)
		if n < 0 || num != 1 || typ != protowire.BytesType {
			return nil, false
		}
		b = b[n:]
		x, m := protowire.ConsumeBytes(b)
		if m < 0 {
			return nil, false
		}
		v = append([]byte(nil), x...) // last one wins
		b = b[m:]
	}
	return v, true
}

// ---------------------------------------------------------------- decoded responses

// RErr is an error as carried by any of the three protocols.
type RErr struct {
	Code    int
	Message string
	Details []Any
}

// Decoded is what a response means at the application level.
type Decoded struct {
	Msgs     [][]byte    // message payloads, decompressed
	Err      *RErr       // nil = success
	Header   http.Header // application headers (protocol headers included; callers filter)
	Trailer  http.Header
	Problems []string // violations of the protocol's response grammar
	Flags    []byte   // envelope flags in order
	Lens     []int    // on-wire payload lengths in order
	Encoding string   // what the encoding header names
	Bare     bool     // 405/415/505-style response outside any protocol
}

func (d *Decoded) bad(f string, a ...any) { d.Problems = append(d.Problems, fmt.Sprintf(f, a...)) }

const (
	Connect = "connect"
	GRPC    = "grpc"
	GRPCWeb = "grpcweb"
)

// connect JSON error
type jsonErr struct {
	Code    string            `json:"code"`
	Message string            `json:"message"`
	Details []json.RawMessage `json:"details"`
}

type jsonEnd struct {
	Error    *jsonErr            `json:"error"`
	Metadata map[string][]string `json:"metadata"`
}

// detailFromJSON understands the protojson form of Any for the wrapper types the harness uses.
func detailFromJSON(raw json.RawMessage) (Any, error) {
	var m map[string]json.RawMessage
	if err := json.Unmarshal(raw, &m); err != nil {
		return Any{}, err
	}
	var a Any
	if t, ok := m["@type"]; ok {
		if err := json.Unmarshal(t, &a.TypeURL); err != nil {
			return a, err
		}
	} else {
		return a, fmt.Errorf("detail without @type")
	}
	v, ok := m["value"]
	if !ok {
		return a, nil
	}
	switch {
	case strings.HasSuffix(a.TypeURL, "/google.protobuf.StringValue"):
		var s string
		if err := json.Unmarshal(v, &s); err != nil {
			return a, err
		}
		a.Value = WrapBytes([]byte(s))
	case strings.HasSuffix(a.TypeURL, "/google.protobuf.BytesValue"):
		var s string
		if err := json.Unmarshal(v, &s); err != nil {
			return a, err
		}
		b, err := base64.StdEncoding.DecodeString(s)
		if err != nil {
			b, err = B64Decode(s)
			if err != nil {
				return a, err
			}
		}
		a.Value = WrapBytes(b)
	default:
		return a, fmt.Errorf("detail type %q not understood by the reference codec", a.TypeURL)
	}
	return a, nil
}

func (d *Decoded) connectErr(je *jsonErr) *RErr {
	c, ok := CodeFromName(je.Code)
	if !ok {
		d.bad("connect error has unknown code %q", je.Code)
		c = 2
	}
	e := &RErr{Code: c, Message: je.Message}
	for _, raw := range je.Details {
		a, err := detailFromJSON(raw)
		if err != nil {
			d.bad("connect error detail: %v", err)
			continue
		}
		e.Details = append(e.Details, a)
	}
	return e
}

func canonical(h map[string][]string) http.Header {
	out := http.Header{}
	for k, vs := range h {
		ck := http.CanonicalHeaderKey(k)
		out[ck] = append(out[ck], vs...)
	}
	return out
}

// grpcTrailerErr reads grpc-status / grpc-message / grpc-status-details-bin from a header block.
func (d *Decoded) grpcStatus(h http.Header) (present bool, e *RErr) {
	vals := h.Values("Grpc-Status")
	if len(vals) == 0 {
		return false, nil
	}
	if len(vals) > 1 {
		d.bad("more than one grpc-status in one block: %v", vals)
	}
	n, err := strconv.Atoi(vals[0])
	if err != nil || n < 0 {
		d.bad("grpc-status %q is not a number", vals[0])
		return true, &RErr{Code: 2}
	}
	if n == 0 {
		return true, nil
	}
	e = &RErr{Code: n, Message: PercentDecode(h.Get("Grpc-Message"))}
	for i := 0; i < len(h.Get("Grpc-Message")); i++ {
		if c := h.Get("Grpc-Message")[i]; c < 0x20 || c > 0x7E {
			d.bad("grpc-message contains byte %#x", c)
			break
		}
	}
	if bin := h.Get("Grpc-Status-Details-Bin"); bin != "" {
		raw, err := B64Decode(bin)
		if err != nil {
			d.bad("grpc-status-details-bin is not base64: %v", err)
			return true, e
		}
		st, err := ParseStatus(raw)
		if err != nil {
			d.bad("grpc-status-details-bin is not a Status: %v", err)
			return true, e
		}
		if int(st.Code) != n {
			d.bad("grpc-status %d disagrees with details-bin code %d", n, st.Code)
		}
		// HTTP strips optional whitespace around field values, so compare modulo surrounding blanks
		if _, has := h["Grpc-Message"]; has && strings.TrimSpace(st.Message) != strings.TrimSpace(e.Message) {
			d.bad("grpc-message %q disagrees with details-bin message %q", e.Message, st.Message)
		}
		e.Details = st.Details
		e.Message = st.Message // the protobuf status is authoritative
	}
	return true, e
}

func parseHeaderBlock(b []byte) (http.Header, error) {
	h := http.Header{}
	for _, line := range strings.Split(string(b), "\r\n") {
		if line == "" {
			continue
		}
		i := strings.IndexByte(line, ':')
		if i <= 0 {
			return h, fmt.Errorf("trailer line %q has no colon", line)
		}
		h.Add(http.CanonicalHeaderKey(line[:i]), strings.TrimSpace(line[i+1:]))
	}
	return h, nil
}

// ParseResponse decodes a complete response.  unary selects the Connect unary sub-protocol.
func ParseResponse(proto string, unary bool, reqContentType string, status int, header http.Header, body []byte, trailer http.Header) *Decoded {
	d := &Decoded{Header: header.Clone(), Trailer: http.Header{}}
	if d.Header == nil {
		d.Header = http.Header{}
	}
	ct := header.Get("Content-Type")
	// HTTP-level sanity, whatever the protocol: one content type, and a declared length is the body's
	if n := len(header.Values("Content-Type")); n > 1 {
		d.bad("%d Content-Type values in the response", n)
	}
	if cl := header.Values("Content-Length"); len(cl) > 0 && (len(cl) > 1 || cl[0] != strconv.Itoa(len(body))) {
		d.bad("Content-Length %v, body of %d bytes", cl, len(body))
	}
	switch proto {
	case Connect:
		if unary {
			d.Encoding = header.Get("Content-Encoding")
			// Trailer- prefixed headers are the trailers
			for k, v := range header {
				if strings.HasPrefix(k, "Trailer-") {
					d.Trailer[strings.TrimPrefix(k, "Trailer-")] = v
					delete(d.Header, k)
				}
			}
			if status == 200 {
				if ct != reqContentType {
					d.bad("response content-type %q does not echo request's %q", ct, reqContentType)
				}
				raw, err := Decompress(d.Encoding, body)
				if err != nil {
					d.bad("body does not decompress with %q: %v", d.Encoding, err)
				}
				d.Msgs = append(d.Msgs, raw)
				d.Lens = append(d.Lens, len(body))
				return d
			}
			if status >= 200 && status < 300 {
				d.bad("connect unary: 2xx status %d other than 200", status)
			}
			if ct != "application/json" {
				d.bad("connect unary error with content-type %q", ct)
			}
			raw, err := Decompress(d.Encoding, body)
			if err != nil {
				d.bad("error body does not decompress: %v", err)
			}
			var je jsonErr
			if err := json.Unmarshal(raw, &je); err != nil {
				d.bad("connect unary error body is not JSON: %v", err)
				d.Err = &RErr{Code: 2}
				return d
			}
			d.Err = d.connectErr(&je)
			if want := ConnectHTTPStatus(d.Err.Code); want != status {
				d.bad("connect unary error code %d under HTTP %d, want %d", d.Err.Code, status, want)
			}
			return d
		}
		d.Encoding = header.Get("Connect-Content-Encoding")
		if status != 200 {
			d.bad("connect streaming response with status %d", status)
			d.Err = &RErr{Code: 2}
			return d
		}
		if ct != reqContentType {
			d.bad("response content-type %q does not echo request's %q", ct, reqContentType)
		}
		frames, rest := ParseEnvelopes(body)
		if len(rest) != 0 {
			d.bad("%d trailing bytes after the last complete envelope", len(rest))
		}
		ends := 0
		for i, f := range frames {
			d.Flags = append(d.Flags, f.Flag)
			d.Lens = append(d.Lens, len(f.Payload))
			if f.Flag&^3 != 0 {
				d.bad("frame %d has unknown flag bits %#x", i, f.Flag)
			}
			p := f.Payload
			if f.Flag&1 != 0 {
				if d.Encoding == "" || d.Encoding == "identity" {
					d.bad("frame %d flagged compressed but no encoding named", i)
				}
				var err error
				if p, err = Decompress(d.Encoding, p); err != nil {
					d.bad("frame %d does not decompress: %v", i, err)
				}
			}
			if f.Flag&2 != 0 {
				ends++
				if i != len(frames)-1 {
					d.bad("end-of-stream envelope is not the last frame")
				}
				var end jsonEnd
				if err := json.Unmarshal(p, &end); err != nil {
					d.bad("end-of-stream payload is not JSON: %v", err)
					continue
				}
				if end.Error != nil {
					d.Err = d.connectErr(end.Error)
				}
				d.Trailer = canonical(end.Metadata)
				continue
			}
			if ends > 0 {
				d.bad("message after end-of-stream")
			}
			d.Msgs = append(d.Msgs, p)
		}
		if ends != 1 {
			d.bad("connect stream has %d end-of-stream envelopes", ends)
			if d.Err == nil {
				d.Err = &RErr{Code: 2, Message: "no end of stream"}
			}
		}
		return d
	case GRPC, GRPCWeb:
		d.Encoding = header.Get("Grpc-Encoding")
		if status != 200 {
			d.bad("%s response with HTTP status %d", proto, status)
			d.Err = &RErr{Code: 2}
			return d
		}
		if ct != reqContentType {
			d.bad("response content-type %q does not echo request's %q", ct, reqContentType)
		}
		frames, rest := ParseEnvelopes(body)
		if len(rest) != 0 {
			d.bad("%d trailing bytes after the last complete envelope", len(rest))
		}
		statuses := 0
		hp, he := d.grpcStatus(header)
		if hp {
			statuses++
			if len(frames) > 0 {
				d.bad("grpc-status in headers of a response with a body")
			}
			d.Err = he
			// trailers-only: everything but content-type counts as trailing metadata
			for k, v := range header {
				if k != "Content-Type" {
					d.Trailer[k] = v
				}
			}
		}
		for i, f := range frames {
			d.Flags = append(d.Flags, f.Flag)
			d.Lens = append(d.Lens, len(f.Payload))
			p := f.Payload
			if f.Flag&1 != 0 {
				if d.Encoding == "" || d.Encoding == "identity" {
					d.bad("frame %d flagged compressed but no encoding named", i)
				}
				var err error
				if p, err = Decompress(d.Encoding, p); err != nil {
					d.bad("frame %d does not decompress: %v", i, err)
				}
			}
			if proto == GRPCWeb && f.Flag&0x80 != 0 {
				if i != len(frames)-1 {
					d.bad("trailer frame is not the last frame")
				}
				if f.Flag&^0x81 != 0 {
					d.bad("frame %d has unknown flag bits %#x", i, f.Flag)
				}
				th, err := parseHeaderBlock(p)
				if err != nil {
					d.bad("trailer frame: %v", err)
				}
				tp, te := d.grpcStatus(th)
				if !tp {
					d.bad("trailer frame without grpc-status")
				} else {
					statuses++
					d.Err = te
				}
				for k, v := range th {
					d.Trailer[k] = append(d.Trailer[k], v...)
				}
				continue
			}
			if f.Flag&^1 != 0 {
				d.bad("frame %d has unknown flag bits %#x", i, f.Flag)
			}
			d.Msgs = append(d.Msgs, p)
		}
		if proto == GRPC {
			tp, te := d.grpcStatus(trailer)
			if tp {
				statuses++
				d.Err = te
			}
			for k, v := range trailer {
				d.Trailer[k] = append(d.Trailer[k], v...)
			}
		} else if len(trailer) != 0 {
			d.bad("gRPC-Web response with HTTP trailers")
		}
		if statuses != 1 {
			d.bad("%d grpc-status values in the response, want exactly 1", statuses)
			if d.Err == nil && statuses == 0 {
				d.Err = &RErr{Code: 2, Message: "no grpc-status"}
			}
		}
		return d
	}
	d.bad("unknown protocol %q", proto)
	return d
}

// SortedKeys is a helper for deterministic output.
func SortedKeys(h http.Header) []string {
	ks := make([]string, 0, len(h))
	for k := range h {
		ks = append(ks, k)
	}
	sort.Strings(ks)
	return ks
}

// ---------------------------------------------------------------- a conformant peer's encoder

// Choices are the freedoms the three protocols leave to an encoder.
type Choices struct {
	PadBin      bool   // padded base64 in -bin values
	LowerHex    bool   // lower-case hex digits in percent-encoding
	EscapeMore  bool   // percent-encode more than necessary (space)
	OmitMessage bool   // leave grpc-message out when grpc-status-details-bin carries it
	OmitDetails bool   // leave grpc-status-details-bin out when there are no details
	HeadersOnly bool   // gRPC family, no body: put status and trailing metadata into HTTP headers
	LowerKeys   bool   // lower-case metadata keys in the gRPC-Web trailer frame / Connect end-of-stream JSON
	Encoding    string // algorithm named in the encoding header ("" = none)
	Mask        int    // bit i: message i is sent compressed (only with Encoding)
	ExtraJSON   bool   // insignificant whitespace in Connect JSON
	DropStatus  bool   // NOT conformant: end the response without the protocol's terminator (a broken peer / proxy)
}

// AppResponse is a response at the application level.
type AppResponse struct {
	Msgs    [][]byte
	Err     *RErr
	Header  http.Header
	Trailer http.Header
	ErrMeta http.Header
}

func pct(s string, c Choices) string {
	var sb strings.Builder
	for i := 0; i < len(s); i++ {
		b := s[i]
		if b >= 0x20 && b <= 0x7E && b != '%' && !(c.EscapeMore && b == ' ') {
			sb.WriteByte(b)
			continue
		}
		h := strconv.FormatUint(uint64(b)+0x100, 16)[1:]
		if !c.LowerHex {
			h = strings.ToUpper(h)
		}
		sb.WriteString("%" + h)
	}
	return sb.String()
}

func keyCase(k string, c Choices) string {
	if c.LowerKeys {
		return strings.ToLower(k)
	}
	return k
}

func connectErrorJSON(e *RErr, c Choices) string {
	m := map[string]any{"code": CodeName(e.Code)}
	if e.Message != "" {
		m["message"] = e.Message
	}
	if len(e.Details) > 0 {
		var ds []map[string]any
		for _, d := range e.Details {
			v, _ := UnwrapBytes(d.Value)
			ds = append(ds, map[string]any{"@type": d.TypeURL, "value": string(v)})
		}
		m["details"] = ds
	}
	b, _ := json.Marshal(m)
	if c.ExtraJSON { // insignificant whitespace
		return " " + strings.ReplaceAll(string(b), ",", " ,\n ") + " "
	}
	return string(b)
}

func mergeInto(dst http.Header, srcs ...http.Header) {
	for _, s := range srcs {
		for k, vs := range s {
			dst[k] = append(dst[k], vs...)
		}
	}
}

func grpcStatusBlock(e *RErr, c Choices) http.Header {
	h := http.Header{}
	if e == nil {
		h.Set("Grpc-Status", "0")
		return h
	}
	h.Set("Grpc-Status", strconv.Itoa(e.Code))
	hasBin := !(c.OmitDetails && len(e.Details) == 0)
	if !(c.OmitMessage && hasBin) {
		h.Set("Grpc-Message", pct(e.Message, c))
	}
	if hasBin {
		h.Set("Grpc-Status-Details-Bin", B64Encode(MarshalStatus(Status{Code: int32(e.Code), Message: e.Message, Details: e.Details}), c.PadBin))
	}
	return h
}

func (c Choices) frame(i int, payload []byte) []byte {
	if c.Encoding != "" && c.Mask&(1<<uint(i)) != 0 {
		return Envelope(1, Compress(c.Encoding, payload))
	}
	return Envelope(0, payload)
}

// EncodeResponse writes r the way a conformant peer may, under the given choices.
func EncodeResponse(proto string, unary bool, reqContentType string, r AppResponse, c Choices) (status int, header http.Header, body []byte, trailer http.Header) {
	header, trailer = http.Header{}, http.Header{}
	mergeInto(header, r.Header)
	status = 200
	switch proto {
	case Connect:
		if unary {
			if r.Err != nil {
				status = ConnectHTTPStatus(r.Err.Code)
				header.Set("Content-Type", "application/json")
				mergeInto(header, r.ErrMeta)
				for k, v := range r.Trailer {
					header["Trailer-"+k] = v
				}
				body = []byte(connectErrorJSON(r.Err, c))
				if c.Encoding != "" && c.Mask&1 != 0 {
					// a peer (or a compressing proxy) may compress the error body like any other body
					body = Compress(c.Encoding, body)
					header.Set("Content-Encoding", c.Encoding)
				}
				return status, header, body, trailer
			}
			header.Set("Content-Type", reqContentType)
			for k, v := range r.Trailer {
				header["Trailer-"+k] = v
			}
			if len(r.Msgs) > 0 {
				body = r.Msgs[0]
			}
			if c.Encoding != "" && c.Mask&1 != 0 {
				body = Compress(c.Encoding, body)
				header.Set("Content-Encoding", c.Encoding)
			}
			return status, header, body, trailer
		}
		header.Set("Content-Type", reqContentType)
		if c.Encoding != "" {
			header.Set("Connect-Content-Encoding", c.Encoding)
		}
		for i, m := range r.Msgs {
			body = append(body, c.frame(i, m)...)
		}
		meta := http.Header{}
		mergeInto(meta, r.Trailer, r.ErrMeta)
		end := map[string]any{}
		if len(meta) > 0 {
			mm := map[string][]string{}
			for k, v := range meta {
				mm[keyCase(k, c)] = v
			}
			end["metadata"] = mm
		}
		if r.Err != nil {
			end["error"] = json.RawMessage(connectErrorJSON(r.Err, c))
		}
		eb, _ := json.Marshal(end)
		if c.ExtraJSON {
			eb = append([]byte(" "), eb...)
		}
		if !c.DropStatus {
			body = append(body, Envelope(2, eb)...)
		}
		return status, header, body, trailer
	case GRPC, GRPCWeb:
		header.Set("Content-Type", reqContentType)
		if c.Encoding != "" {
			header.Set("Grpc-Encoding", c.Encoding)
		}
		for i, m := range r.Msgs {
			body = append(body, c.frame(i, m)...)
		}
		end := grpcStatusBlock(r.Err, c)
		mergeInto(end, r.Trailer, r.ErrMeta)
		if c.DropStatus {
			return status, header, body, trailer
		}
		if len(r.Msgs) == 0 && c.HeadersOnly {
			mergeInto(header, end)
			return status, header, nil, trailer
		}
		if proto == GRPC {
			return status, header, body, end
		}
		var sb strings.Builder
		for _, k := range SortedKeys(end) {
			for _, v := range end[k] {
				sb.WriteString(keyCase(k, c) + ": " + v + "\r\n")
			}
		}
		body = append(body, Envelope(0x80, []byte(sb.String()))...)
		return status, header, body, trailer
	}
	return 500, header, nil, trailer
}

// ---- a conformant foreign client: requests under the freedoms the protocols leave (C05, converse) -------

// ReqChoices are the freedoms a client has in writing a request.
type ReqChoices struct {
	Encoding     string // algorithm named in the request's encoding header ("" = none)
	Mask         int    // bit i: message i is sent compressed (streams; a unary Connect body is compressed iff Encoding)
	PadBin       bool   // padded base64 in -Bin header values
	BareCT       bool   // gRPC family with the proto codec: "application/grpc" / "application/grpc-web" without "+proto"
	SpacedAccept bool   // "a, b" instead of "a,b" in the accept-encoding list
	NoVersion    bool   // Connect: leave the optional Connect-Protocol-Version header out
	// ExplicitIdentity: when nothing is compressed, say so ("identity") instead of leaving the encoding header out
	ExplicitIdentity bool
}

// EncodeRequest writes a request: msgs are codec-encoded messages, hdr application headers (-Bin values unpadded
// base64), accept the algorithms the client can read, in order of preference.
func EncodeRequest(proto string, unary bool, codec string, msgs [][]byte, hdr http.Header, accept []string, c ReqChoices) (header http.Header, body []byte) {
	header = http.Header{}
	for k, vs := range hdr {
		for _, v := range vs {
			if strings.HasSuffix(strings.ToLower(k), "-bin") && c.PadBin {
				if raw, err := B64Decode(v); err == nil {
					v = B64Encode(raw, true)
				}
			}
			header.Add(k, v)
		}
	}
	sep := ","
	if c.SpacedAccept {
		sep = ", "
	}
	acc := strings.Join(accept, sep)
	switch proto {
	case Connect:
		if !c.NoVersion {
			header.Set("Connect-Protocol-Version", "1")
		}
		if unary {
			header.Set("Content-Type", "application/"+codec)
			if acc != "" {
				header.Set("Accept-Encoding", acc)
			}
			if len(msgs) > 0 {
				body = msgs[0]
			}
			if c.Encoding != "" {
				header.Set("Content-Encoding", c.Encoding)
				body = Compress(c.Encoding, body)
			} else if c.ExplicitIdentity {
				header.Set("Content-Encoding", "identity")
			}
			return header, body
		}
		header.Set("Content-Type", "application/connect+"+codec)
		if acc != "" {
			header.Set("Connect-Accept-Encoding", acc)
		}
		if c.Encoding != "" {
			header.Set("Connect-Content-Encoding", c.Encoding)
		}
	default:
		base := "application/grpc"
		if proto == GRPCWeb {
			base = "application/grpc-web"
		} else {
			header.Set("Te", "trailers")
		}
		if codec == "proto" && c.BareCT {
			header.Set("Content-Type", base)
		} else {
			header.Set("Content-Type", base+"+"+codec)
		}
		if acc != "" {
			header.Set("Grpc-Accept-Encoding", acc)
		}
		if c.Encoding != "" {
			header.Set("Grpc-Encoding", c.Encoding)
		}
	}
	if c.Encoding == "" && c.ExplicitIdentity {
		switch {
		case proto == Connect && unary:
			header.Set("Content-Encoding", "identity")
		case proto == Connect:
			header.Set("Connect-Content-Encoding", "identity")
		default:
			header.Set("Grpc-Encoding", "identity")
		}
	}
	for i, m := range msgs {
		if c.Encoding != "" && c.Mask&(1<<uint(i)) != 0 && len(m) > 0 {
			body = append(body, Envelope(1, Compress(c.Encoding, m))...)
		} else {
			body = append(body, Envelope(0, m)...)
		}
	}
	return header, body
}
