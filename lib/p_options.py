"""Options family: C16 (interceptor order under any grouping) and C19 (WithRecover) -- spec/Options.tla."""
from . import core


def sig(prop):
    def f(rj):
        sc = rj["trace"][0]["sc"]
        ev = rj["event"]
        return "%s|%s/%s|%s|panic=%s|at=%s" % (prop, sc.get("side"), sc.get("shape"), str(sc.get("opts"))[:120],
                                               sc.get("panic"), ev.get("ev"))
    return f


def run_C16(ctx):
    quick = ctx.tier == "quick"
    core.design_check(ctx, "MC_Options", "MC_Options_Q.cfg" if quick else "MC_Options.cfg")
    scen = core.generate(ctx, "MC_Options", "Gen_Options_Q.cfg" if quick else "Gen_Options.cfg", tag="genopt")["scenarios"]
    total = len(scen)
    if quick:
        scen = core.sample(ctx.rng, scen, 12000)
    # (in chunks: the runner keeps a run's events in memory, 600 k scenarios in one process took tens of gigabytes)
    for k in range(0, max(len(scen), 1), 100000):
        tf = core.run_runner(ctx, "opts", scen[k:k + 100000], tag="opts%d" % (k // 100000))
        acc, rej = core.validate(ctx, "TraceOptions", tf, tag="opts%d" % (k // 100000), sigfn=sig("C16"))
        core.judge(ctx, rej)
    ctx.notes["generated_option_trees"] = total
    return core.finish(ctx, exhaustive=not quick or total <= 12000, rule=(
        "TLC enumerates option trees (every list of up to 3 (quick) / 4 (thorough) distinct interceptors with nil at "
        "any position, every composition into consecutive WithInterceptors groups, groups wrapped in "
        "WithOptions / WithClientOptions / WithHandlerOptions, an outer group, an empty WithInterceptors()) x "
        "{client, handler} x {unary, stream}; each is built with the real option constructors and one real call is "
        "made; the recorded order of every layer must be the specification's"))


def run_C19(ctx):
    core.design_check(ctx, "MC_Options", "MC_Options_Rec.cfg")
    scen = core.generate(ctx, "MC_Options", "Gen_Options_Rec.cfg", tag="genrec")["scenarios"]
    tf = core.run_runner(ctx, "opts", scen, tag="rec")
    acc, rej = core.validate(ctx, "TraceOptions", tf, tag="rec", sigfn=sig("C19"))
    core.judge(ctx, rej)
    return core.finish(ctx, exhaustive=True, rule=(
        "TLC enumerates panic value x panic point x RPC kind x protocol x position of the recover interceptor in "
        "chains of up to three (spec/MC_Options.tla RecInit); each runs on the real handler through the in-memory "
        "transport; the recovery function's call count and argument, the client's error and the interceptor "
        "exits are compared with the specification"))
