"""Scalars family: C18 and C10 -- spec/Scalars.tla, spec/TimeoutGrammar.tla, spec/Timeout.tla (Apalache)."""
import os
import re
import subprocess
import time
from . import core
from . import p_serve

RULE = ("TLC enumerates vectors from spec/MC_Scalars.tla (all byte strings up to length 3 over 12 class "
        "representatives, decoder inputs up to length 4, code values, parse vectors, durations); the real functions "
        "are applied to each and TLC compares with the TLA+ operators; plus sweeps with intrinsic checks "
        "(code round trip over the whole range, random long byte strings, durations over the 63-bit range)")


def sig(prop):
    def f(rj):
        sc = rj["trace"][0]["sc"]
        return "%s|op=%s|%s" % (prop, sc.get("op"), str({k: v for k, v in sc.items() if k != "op"})[:80])
    return f


def apalache_timeout(ctx):
    """The gRPC timeout encoding bound over the whole 63-bit range (TLC's integers are 32 bit)."""
    out = ctx.path("apalache")
    os.makedirs(out, exist_ok=True)
    t = time.time()
    try:
        r = subprocess.run(["apalache-mc", "check", "--init=Init", "--next=Next", "--inv=Inv", "--length=1",
                            "--out-dir=" + out, os.path.join(core.SPEC, "Timeout.tla")],
                           capture_output=True, text=True, timeout=600, cwd=out)
    except (subprocess.TimeoutExpired, FileNotFoundError) as e:
        ctx.notes["apalache"] = "not run: %s" % e
        return
    ok = "The outcome is: NoError" in r.stdout
    ctx.notes["apalache"] = dict(outcome="NoError" if ok else "see log", wall_s=round(time.time() - t, 1),
                                 theorem="Timeout.tla Inv: for every d in 1..2^63-1 the gRPC encoding has at most 8 digits, "
                                         "decodes to at most d and loses less than one unit and less than 0.01%")
    core.log("[apalache] Timeout.tla: %s %.1fs" % ("NoError" if ok else "FAILED", time.time() - t))
    if not ok:
        raise core.Infra("Apalache did not prove Timeout.tla:\n" + r.stdout[-2000:])


def scalars(ctx, ops, sweeps):
    core.design_check(ctx, "MC_Scalars", "MC_Scalars.cfg", workers=4)
    scen = [s for s in core.generate(ctx, "MC_Scalars", "Gen_Scalars.cfg", tag="gensc")["scenarios"] if s["op"] in ops]
    tf = core.run_runner(ctx, "scalars", scen + sweeps, tag="scalars", timeout=7200, args=["-hang", "3600s"])
    acc, rej = core.validate(ctx, "TraceScalars", tf, tag="scalars", sigfn=sig(ctx.prop))
    core.judge(ctx, rej)


def run_C18(ctx):
    quick = ctx.tier == "quick"
    sweeps = [dict(op="sweep_pct", n=20000 if quick else 2000000)]
    if quick:
        # stratified: every boundary region in full, the rest by blocks
        for lo, hi in [(0, 1 << 22), ((1 << 31) - (1 << 20), (1 << 31) + (1 << 20)), ((1 << 32) - (1 << 22), 1 << 32)]:
            sweeps.append(dict(op="sweep_codes", **{"from": lo, "to": hi}))
        for k in range(64):
            lo = ctx.rng.randrange(1 << 22, (1 << 32) - (1 << 22))
            sweeps.append(dict(op="sweep_codes", **{"from": lo, "to": lo + (1 << 16)}))
    else:
        for k in range(16):
            sweeps.append(dict(op="sweep_codes", **{"from": k << 28, "to": (k + 1) << 28}))
    scalars(ctx, {"pct", "pctany", "code", "parse", "b64", "grpcmsg_e2e"}, sweeps)
    return core.finish(ctx, rule=RULE, exhaustive=not quick,
                       assumptions=["unexported functions are reached through the verif-tagged shims (verif_shims.go)",
                                    "quick tier sweeps 2^24 stratified code values, thorough all 2^32"])


def run_C10(ctx):
    quick = ctx.tier == "quick"
    apalache_timeout(ctx)
    scalars(ctx, {"timeout", "deadline_e2e", "nodeadline_e2e", "deadline_wait"}, [dict(op="sweep_timeout", n=200000 if quick else 20000000)])
    # handler half: every timeout header string of the design check served by the real handler
    core.design_check(ctx, "MC_Serve", "MC_Serve.cfg")
    scen = [s for s in core.generate(ctx, "MC_Serve", "Gen_Serve.cfg", tag="genserve")["scenarios"]
            if s["theader"] != "none"]
    tf = core.run_runner(ctx, "req", scen, tag="req")
    acc, rej = core.validate(ctx, "TraceServe", tf, tag="req", sigfn=p_serve.sig("C10"))
    core.judge(ctx, rej)
    return core.finish(ctx, rule=RULE + "; handler half: every timeout string of spec/MC_Serve.tla is served by the real "
                       "handler and the deadline seen by user code is compared with the grammar's value",
                       exhaustive=True)
