"""Wire family: C01, C02, C05, C08, C11 -- spec/Wire.tla, spec/TraceWire.tla, runner family e2e."""
from . import core

RULE = ("TLC enumerates configurations x client/handler programs from spec/MC_Wire.tla (one generator per "
        "property); a seeded sample (quick) or the whole set (thorough) is executed end to end on the real "
        "client and handler over the in-memory duplex transport and loopback HTTP/1.1 and HTTP/2 servers; "
        "distinct = distinct recorded traces; non-trivial = the trace has the tapped request, the handler's "
        "view, the tapped response and the client's view")

ASSUME = ["the reference codec (harness/refcodec) tokenises the raw exchange; it shares no code with the library",
          "metadata keys are canonical X- names outside the reserved prefixes, values printable ASCII",
          "payload bytes inside a size class are seeded-random"]


def sig(prop):
    def f(rj):
        sc = rj["trace"][0]["sc"]
        ev = rj["event"]
        extra = ""
        if ev.get("ev") == "csaw":
            extra = "ok" if ev.get("ok") else "code%s" % ev.get("err", {}).get("code")
        if ev.get("ev") == "resp":
            extra = "status%s" % ev.get("status")
        return "%s|%s/%s/%s|out=%s|at=%s:%s" % (prop, sc["proto"], sc["kind"], sc["codec"], sc["out"]["kind"],
                                                ev.get("ev"), extra)
    return f


def with_transports(ctx, scen, nloop):
    """Most scenarios run on the in-memory transport; a seeded subset also over real loopback servers."""
    out = list(scen)
    for s in core.sample(ctx.rng, scen, nloop):
        s = dict(s, transport="loop")
        if s["proto"] == "grpc":
            # gRPC needs HTTP/2 on a real wire; net/http's HTTP/1.1 client also refuses trailers > 4 KiB
            s["http"] = 2
        out.append(s)
    return out


def run_wire(ctx, gens, nquick, nthorough, nloop, design_cfg=None):
    quick = ctx.tier == "quick"
    core.design_check(ctx, "MC_Wire", design_cfg or ("MC_Wire_Q.cfg" if quick else "MC_Wire.cfg"))
    scen = []
    total = 0
    for g in gens:
        sc = core.generate(ctx, "MC_Wire", "Gen_Wire_%s.cfg" % g, tag="gen" + g)["scenarios"]
        total += len(sc)
        # rare classes are always kept, the bulk is sampled
        rare = [s for s in sc if s["out"]["kind"] == "badsend"]
        # sizes around the pool's seed capacity, one scenario per encoded size (MC_Wire GenC01EdgeInit)
        rare += [s for s in sc if any(500 <= m["vlen"] <= 515 and m["vlen"] not in (508, 509, 510) for m in s["req"] + s["resp"])]
        # megabyte messages (C01): a seeded handful in the quick tier, all of them in the thorough one
        big = [s for s in sc if any(m["vlen"] > 1 << 20 for m in s["req"] + s["resp"])]
        sc = [s for s in sc if not any(m["vlen"] > 1 << 20 for m in s["req"] + s["resp"])]
        if ctx.prop == "C01":
            rare += core.sample(ctx.rng, big, 48 if quick else len(big))
        scen += rare + core.sample(ctx.rng, sc, (nquick if quick else nthorough) // len(gens))
    ctx.notes["generated_scenarios"] = total
    scen = with_transports(ctx, scen, nloop if quick else nloop * 10)
    tf = core.run_runner(ctx, "e2e", scen, tag="e2e")
    acc, rej = core.validate(ctx, "TraceWire", tf, tag="e2e", sigfn=sig(ctx.prop))
    core.judge(ctx, rej)
    return core.finish(ctx, rule=RULE, assumptions=ASSUME, exhaustive=(not quick and total <= nthorough))


def run_C01(ctx):
    # messages that are not flat (sub-messages, repeated and map fields, oneofs): same content on the other side
    from . import p_scalars
    p_scalars.scalars(ctx, {"nested_e2e"}, [])
    return run_wire(ctx, ["C01"], 8000, 150000, 300)


def run_C02(ctx):
    return run_wire(ctx, ["C02"], 8000, 180000, 300)


def run_C08(ctx):
    # a unary Request sent twice with the message once above and once below the compression threshold
    from . import p_scalars
    p_scalars.scalars(ctx, {"enc_reuse"}, [])
    # "every compressed message decompresses to the original bytes", "a corrupt compressed message affects only its own
    # call": the bodies of the Frames design check that hold compressed frames (valid, corrupt, the zero message
    # compressed, on reused message holders), both sides
    from . import p_frames
    core.design_check(ctx, "MC_Frames", "MC_Frames.cfg")
    fr = [p_frames.flat(r, script, False) for r in p_frames.gen_a(ctx)
          if r["sc"]["limit"] == 0 and r["sc"]["enc"] == "gzip" and p_frames.complete(r["sc"])
          and any(f["flag"] % 2 == 1 for f in r["sc"]["frames"])
          for script in ([], p_frames.ONES)]
    tf = core.run_runner(ctx, "frames", fr, tag="cframes")
    acc, rej = core.validate(ctx, "TraceFrames", tf, tag="cframes", sigfn=p_frames.sig(ctx.prop))
    core.judge(ctx, rej)
    return run_wire(ctx, ["C08"], 8000, 41040, 200)


def run_C11(ctx):
    # the binary-header helpers (round trip, padded and unpadded input) are part of C11 too
    from . import p_scalars
    p_scalars.scalars(ctx, {"b64", "errmeta_limit"}, [dict(op="sweep_pct", n=5000 if ctx.tier == "quick" else 200000)])
    return run_wire(ctx, ["C11"], 8000, 16800, 300)


def run_C05(ctx):
    # converse direction first: the reference codec as a conformant foreign server, every encoder freedom
    quick = ctx.tier == "quick"
    peers = core.generate(ctx, "MC_Wire", "Gen_Wire_Peer.cfg", tag="genpeer")["scenarios"]
    ctx.notes["peer_scenarios_generated"] = len(peers)
    peers = core.sample(ctx.rng, peers, 6000 if quick else len(peers))
    tf = core.run_runner(ctx, "e2e", peers, tag="peer")
    acc, rej = core.validate(ctx, "TraceWire", tf, tag="peer", sigfn=sig("C05"))
    core.judge(ctx, rej)
    # ... and as a conformant foreign client against the real handler, every freedom of a request writer
    peerc = core.generate(ctx, "MC_Wire", "Gen_Wire_PeerC.cfg", tag="genpeerc")["scenarios"]
    ctx.notes["peer_client_scenarios_generated"] = len(peerc)
    peerc = core.sample(ctx.rng, peerc, 6000 if quick else len(peerc))
    tf = core.run_runner(ctx, "e2e", peerc, tag="peerc")
    acc, rej = core.validate(ctx, "TraceWire", tf, tag="peerc", sigfn=sig("C05"))
    core.judge(ctx, rej)
    return run_wire(ctx, ["C02", "C08", "C11", "C01"], 8000, 80000, 300)


def sig_resp(rj):
    sc = rj["trace"][0]["sc"]
    ev = rj["event"]
    got = "ok" if ev.get("ok") else "code%s" % ev.get("code")
    if ev.get("ev") in ("panic", "hang"):
        got = ev["ev"]
    return "C06|%s/%s|status=%s|h=%s/%s|t=%s/%s|cerr=%s|body=%s|case=%s|got=%s,lookup=%s" % (
        sc["proto"], sc["kind"], sc["status"], sc["hstatus"], sc["hdetails"], sc["tstatus"], sc["tdetails"],
        sc["cerr"], sc["body"], sc["casing"], got, ev.get("lookup"))


def run_C06(ctx):
    quick = ctx.tier == "quick"
    core.design_check(ctx, "MC_Resp", "MC_Resp.cfg")
    scen = core.generate(ctx, "MC_Resp", "Gen_Resp.cfg", tag="genresp")["scenarios"]
    # byte-level fuzz inside every head class: arbitrary bodies
    fuzz = []
    # (not on top of the "flood" class: a random prefix may declare gigabytes, and skipping a message that is over the
    #  read limit legitimately reads as much -- the bound on what is drained belongs to the class's own first message)
    for s in core.sample(ctx.rng, [x for x in scen if x["body"] != "flood"], 3000 if quick else 30000):
        fuzz.append(dict(s, fuzz=ctx.rng.choice([1, 4, 5, 6, 9, 17, 64, 300])))
    tf = core.run_runner(ctx, "resp", scen + fuzz, tag="resp", args=["-hang", "20s"])
    acc, rej = core.validate(ctx, "TraceResp", tf, tag="resp", sigfn=sig_resp)
    core.judge(ctx, rej)
    return core.finish(ctx, rule="TLC enumerates response classes (status x content type x encoding header x gRPC "
                       "status/details in headers and terminator x Connect error JSON class x body class x key "
                       "casing x protocol x call shape) from spec/MC_Resp.tla; every one is fed to the real client "
                       "through a scripted HTTPClient, plus seeded random bodies per head class; non-trivial = a "
                       "trace with a done event", exhaustive=True,
                       assumptions=["crafted responses are built by the reference codec"])
