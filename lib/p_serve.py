"""Serve family: C07, C12 (and the handler half of C10) -- spec/Serve.tla, spec/TraceServe.tla, runner family req."""
from . import core

RULE = ("TLC enumerates requests (method x HTTP version x content-type string x registered codecs x encoding header "
        "x timeout header string x body class x read limit x RPC kind) from spec/MC_Serve.tla; each is served by the "
        "real Handler.ServeHTTP; the response is decoded by the reference codec; distinct = distinct traces; "
        "non-trivial = reached at least the method guard")


def sig(prop):
    def f(rj):
        sc = rj["trace"][0]["sc"]
        ev = rj["event"]
        return "%s|%s|%s|http%s|ct=%s|enc=%s|t=%s:%s|body=%s|got=status%s,code%s,ran%s@%s" % (
            prop, sc["kind"], sc["method"], sc["major"], sc["ctype"], sc["enc"], sc["theader"],
            "".join(sc["timeout"]), sc["body"], ev.get("status"), ev.get("code"), ev.get("ran"), ev.get("ev"))
    return f


def run_serve(ctx, pick):
    quick = ctx.tier == "quick"
    core.design_check(ctx, "MC_Serve", "MC_Serve.cfg")
    scen = [s for s in core.generate(ctx, "MC_Serve", "Gen_Serve.cfg", tag="genserve")["scenarios"] if pick(s)]
    fuzz = []
    for s in core.sample(ctx.rng, [x for x in scen if x["method"] == "POST"], 1500 if quick else 20000):
        fuzz.append(dict(s, fuzz=ctx.rng.choice([1, 4, 5, 6, 9, 17, 64, 300]), limit=1 << 20))
    tf = core.run_runner(ctx, "req", scen + fuzz, tag="req")
    acc, rej = core.validate(ctx, "TraceServe", tf, tag="req", sigfn=sig(ctx.prop))
    core.judge(ctx, rej)
    return core.finish(ctx, rule=RULE, exhaustive=True,
                       assumptions=["requests are built by the reference codec and served through httptest.ResponseRecorder"])


def run_C07(ctx):
    return run_serve(ctx, lambda s: True)


def run_C12(ctx):
    # the Spec both ends see for a Request that is fresh, already used with another client, or being forwarded
    from . import p_scalars
    p_scalars.scalars(ctx, {"spec_reuse", "spec_kinds"}, [])
    return run_serve(ctx, lambda s: s["body"] == "good" and s["theader"] == "none")
