"""Gen family: C17 -- spec/Gen.tla, spec/TraceGen.tla, runner family gen."""
import os
import shutil
import subprocess
from . import core


def sig(rj):
    sc = rj["trace"][0]["sc"]
    ev = rj["event"]
    names = ",".join("%s{%s}" % (s["name"], ",".join(m["name"] + ":" + m["kind"] for m in s["methods"]))
                     for s in sc.get("services", []))
    what = "golden" if ev.get("ev") == "golden" else "ok=%s,parses=%s,builds=%s" % (ev.get("ok"), ev.get("parses"), ev.get("builds"))
    return "C17|pkg=%s|%s|%s" % (sc.get("pkg"), names, what)


def run_C17(ctx):
    quick = ctx.tier == "quick"
    core.design_check(ctx, "MC_Gen", "MC_Gen.cfg", workers=4)
    scen = core.generate(ctx, "MC_Gen", "Gen_Gen.cfg", tag="gengen")["scenarios"]
    # the plugin, built from the tree under test
    plugin = ctx.path("protoc-gen-connect-go")
    r = subprocess.run(["go", "build", "-o", plugin, "./cmd/protoc-gen-connect-go"], cwd=core.REPO, env=core.goenv(),
                       capture_output=True, text=True)
    if r.returncode != 0:
        raise core.Infra("plugin build failed:\n" + r.stdout + r.stderr)
    # scratch module in which generated code is type-checked against the library
    root = ctx.path("genmod")
    os.makedirs(root)
    with open(os.path.join(root, "go.mod"), "w") as f:
        f.write("module example.com/gen\n\ngo 1.18\n\nrequire (\n\tgithub.com/bufbuild/connect-go v0.0.0\n"
                "\tgoogle.golang.org/protobuf v1.28.0\n)\n\nreplace github.com/bufbuild/connect-go => %s\n" % core.REPO)
    shutil.copy(os.path.join(core.REPO, "go.sum"), os.path.join(root, "go.sum"))
    build_ids = set(range(len(scen))) if not quick else set(ctx.rng.sample(range(len(scen)), min(len(scen), 160)))
    # services whose generated identifiers meet (MC_Gen InitD) are always compiled: the defect there is a type error
    for i, s in enumerate(scen):
        if {sv["name"] for sv in s["services"]} & {"NewFoo", "UnimplementedX", "foo", "New_Foo", "Placeholder"} or s.get("msgs"):
            build_ids.add(i)
        s["build"] = i in build_ids
    scen.append(dict(golden=True, pkg="", services=[], gopkg="", deprecated=False, build=False))
    env = dict(VERIF_PLUGIN=plugin, VERIF_GEN_ROOT=root, VERIF_REPO=core.REPO)
    tf = core.run_runner(ctx, "gen", scen, tag="gen", env=env, args=["-hang", "300s"])
    acc, rej = core.validate(ctx, "TraceGen", tf, tag="gen", sigfn=sig, shards=4)
    core.judge(ctx, rej)
    ctx.notes["compiled"] = len(build_ids)
    return core.finish(ctx, level="other", exhaustive=True, extra=dict(explanation=(
        "The specification (spec/Gen.tla) supplies the input enumeration (package forms x service / method name "
        "classes incl. every Go keyword x streaming kinds x deprecation x go_package forms x files without services) "
        "and the routing oracle (canonical path used for mux.Handle, Spec and client URL; constructor per kind; mount "
        "prefix), checked by TLC on the facts extracted from the generated AST. 'Is valid Go that type-checks' is "
        "decided by go/parser and go build on the plugin's real output; determinism by running the plugin twice; the "
        "checked-in ping.connect.go is regenerated from the checked-in descriptors and compared byte for byte.")),
        rule="descriptors enumerated by TLC from spec/MC_Gen.tla; non-trivial = the plugin produced output that was parsed")
