"""Frames family: C01 (stream part), C03, C04, C09 -- spec/Frames.tla, spec/TraceFrames.tla."""
from . import core

ONES = [1] * 400
SPLIT = [2, 3, 1, 100000] * 60


def flat(rec, script=None, eofwith=None, **over):
    s = dict(rec["sc"])
    s["script"] = rec.get("script", []) if script is None else script
    s["eofwith"] = rec.get("eofwith", False) if eofwith is None else eofwith
    s.update(over)
    return s


def wirelen(sc):
    pre = 0 if sc["raw"] else 5
    return sum(pre + f["len"] for f in sc["frames"])


def complete(sc):
    return sc["cut"] > wirelen(sc)


def unary_variants(s):
    """API-shape variants of a stream scenario (the stream state machine is the same)."""
    if s["raw"]:
        return []
    if s["proto"] in ("grpc", "grpcweb"):
        return [dict(s, shape="unary", reuse=False)]
    return []


CTX_TAILS = ("ctxc", "ctxd")


def gen_a(ctx, ctx_tails=False):
    """Scenarios of the design check; the tails at which the call's context ends belong to C15."""
    allsc = core.generate(ctx, "Gen_Frames", "Gen_Frames_A.cfg", tag="genA")["scenarios"]
    return [r for r in allsc if (r["sc"]["tail"] in CTX_TAILS) == ctx_tails]


def sig(prop):
    def f(rj):
        sc = rj["trace"][0]["sc"]
        ev = rj["event"]
        lim = sc["limit"]
        bodies = ".".join("%s%s" % (fr["body"], "c" if fr["flag"] % 2 else "") for fr in sc["frames"])
        partial = "cut" if sc["cut"] <= wirelen(sc) else "full"
        got = ""
        if ev.get("ev") == "done":
            got = "ok" if ev.get("ok") else "code%s" % ev.get("code")
        return "%s|%s/%s/%s|%s|%s,%s|lim=%s|at=%s:%s" % (
            prop, sc["proto"], sc["side"], sc["shape"], bodies, partial, sc["tail"],
            "y" if sc["limit"] else "n", ev.get("ev"), got)
    return f


RULE = ("scenarios are enumerated by TLC from spec/Gen_Frames.tla (bodies x cut offsets x tails x limits x "
        "encodings x protocols x sides; segmentations as TLC paths); distinct = distinct recorded traces "
        "(scenario + every read + every API result); non-trivial = the trace contains at least one read/recv "
        "event besides reset and done")


def _run(ctx, scen, tag):
    tf = core.run_runner(ctx, "frames", scen, tag=tag)
    acc, rej = core.validate(ctx, "TraceFrames", tf, tag=tag, sigfn=sig(ctx.prop))
    core.judge(ctx, rej)


def send_sig(prop):
    def f(rj):
        sc = rj["trace"][0]["sc"]
        ev = rj["event"]
        return "%s|sendside|%s/%s|sizes=%s|cut=%s|%s|at=%s:%s" % (
            prop, sc["proto"], sc["kind"], ".".join(map(str, sc["sizes"])), sc["cut"], sc["fault"],
            ev.get("ev"), ev.get("res", ev.get("code", "")))
    return f


def sendside(ctx, faults):
    """The sending half under a transport that consumes exactly `cut` bytes and then fails / loses its context:
    every byte offset of small request streams (spec/SendSide.tla)."""
    core.design_check(ctx, "MC_SendSide", "MC_SendSide.cfg")
    scen = [s for s in core.generate(ctx, "MC_SendSide", "Gen_SendSide.cfg", tag="gensend")["scenarios"]
            if s["fault"] in faults]
    tf = core.run_runner(ctx, "sendside", scen, tag="sendside")
    acc, rej = core.validate(ctx, "TraceSendSide", tf, tag="sendside", sigfn=send_sig(ctx.prop))
    core.judge(ctx, rej)


def run_C03(ctx):
    core.design_check(ctx, "MC_Frames", "MC_Frames.cfg")
    quick = ctx.tier == "quick"
    segs = core.generate(ctx, "Gen_Frames", "Gen_Frames_B.cfg", tag="genB")["scenarios"]
    allsc = gen_a(ctx)
    scen = [flat(r) for r in (core.sample(ctx.rng, segs, 12000) if quick else segs)]
    # unary-shaped APIs over the same segmentations
    for r in core.sample(ctx.rng, segs, 3000 if quick else 20000):
        scen += [dict(v, script=r["script"], eofwith=r["eofwith"]) for v in unary_variants(r["sc"])]
    # every complete body of the design check under adversarial + random segmentations
    # (read limits are C09's subject, except for plain gRPC, which has no terminator frame for the limit to hit)
    # (... and except on the handler side, where there are no terminator frames either)
    comp = [r for r in allsc if complete(r["sc"]) and (r["sc"]["limit"] == 0 or r["sc"]["proto"] == "grpc"
                                                        or r["sc"]["side"] == "handler")]
    for r in comp:
        n = wirelen(r["sc"]) + 8
        rnd = [[ctx.rng.randint(1, 4) for _ in range(n)] for _ in range(2 if quick else 8)]
        for script in [[], ONES, SPLIT] + rnd:
            for ew in (False, True):
                s = flat(r, script, ew)
                if s["side"] == "handler" and s["limit"] > 0:
                    s["bidi"] = True      # also what the connection reports after the failure must not depend on reads
                scen.append(s)
                if not quick:
                    scen += unary_variants(s)
    # the error document of a non-200 unary Connect response under the same segmentations (its code must not depend on
    # how the body arrives)
    base = next(r for r in comp if r["sc"]["raw"] and r["sc"]["side"] == "client" and r["sc"]["limit"] == 0
                and r["sc"]["enc"] == "none" and r["sc"]["frames"][0]["body"] == "msg")
    for status in (409, 503):
        rnd = [[ctx.rng.randint(1, 7) for _ in range(120)] for _ in range(4 if quick else 16)]
        for script in [[], ONES, SPLIT] + rnd:
            for ew in (False, True):
                scen.append(flat(base, script, ew, status=status))
    ctx.notes["exhaustive_segmentations"] = len(segs)
    _run(ctx, scen, "c03")
    return core.finish(ctx, rule=RULE, exhaustive=not quick, assumptions=[
        "scripted bodies honour io.Reader's contract (never 0 bytes with a nil error)",
        "payload bytes inside a size class are seeded-random"])


def run_C04(ctx):
    core.design_check(ctx, "MC_Frames", "MC_Frames.cfg")
    quick = ctx.tier == "quick"
    allsc = gen_a(ctx)
    scen = []
    for r in allsc:
        if r["sc"]["limit"] > 0:
            continue      # read limits are C09's subject
        scripts = [[], ONES] if quick else [[], ONES, SPLIT]
        for script in scripts:
            for ew in (False, True):
                s = flat(r, script, ew)
                scen.append(s)
                if script == [] or not quick:
                    scen += unary_variants(s)
    # HTTPClient.Do itself fails: no response at all (every protocol, stream- and unary-shaped APIs)
    for r in allsc:
        sc = r["sc"]
        if (sc["side"] == "client" and sc["cut"] == 0 and sc["limit"] == 0 and sc["enc"] == "none"
                and sc["trailers"] == "none"):      # (tail "eof": net/http's `Post "...": EOF`)
            s = flat(r, [], False, doerr=True)
            scen.append(s)
            scen += unary_variants(s)
    _run(ctx, scen, "c04")
    # write side: the transport fails after consuming k bytes of the request, for every k
    sendside(ctx, ("err", "werr", "werr1"))
    # the handler's view of a request stream whose client failed (a Receive of its own) without closing it
    from . import p_scalars
    p_scalars.scalars(ctx, {"recvfail_live"}, [])
    return core.finish(ctx, rule=RULE + "; write side: spec/SendSide.tla, the transport consumes exactly k bytes of "
                       "the request body and fails, for every k and RPC kind; a handler's ResponseWriter that refuses the k-th Write, for every k", exhaustive=True, assumptions=[
        "cut offsets are exhaustive over the abstract frame sizes; compressed and terminator frames are "
        "scaled to their concrete size"])


def run_C09(ctx):
    core.design_check(ctx, "MC_Frames", "MC_Frames.cfg")
    lim = core.generate(ctx, "Gen_Frames", "Gen_Frames_C.cfg", tag="genC")["scenarios"]
    allsc = [r for r in gen_a(ctx)
             if r["sc"]["limit"] > 0]
    scen = []
    for r in lim + allsc:
        for script in ([[]] if ctx.tier == "quick" else [[], ONES, SPLIT]):
            s = flat(r, script, False)
            scen.append(s)
            scen += unary_variants(s)
    _run(ctx, scen, "c09")
    # memory attacks, one at a time so that the allocation counter belongs to the call
    atk = [flat(r, [], False, bomb=r["sc"].get("bomb", False), maxlimit=r["sc"].get("maxlimit", False),
                biglimit=r["sc"].get("biglimit", ""), status=r["sc"].get("status", 0))
           for r in core.generate(ctx, "Gen_Frames", "Gen_Frames_D.cfg", tag="genD")["scenarios"]]
    atk += [u for s in atk for u in unary_variants(s)]
    tf = core.run_runner(ctx, "frames", atk, tag="c09mem", args=["-workers", "1"])
    acc, rej = core.validate(ctx, "TraceFrames", tf, tag="c09mem", sigfn=sig(ctx.prop), shards=1)
    core.judge(ctx, rej)
    return core.finish(ctx, rule=RULE + "; memory clause: bomb / lying-prefix scenarios run one at a time, "
                       "runtime.MemStats.TotalAlloc delta must stay below 8N + 8 MiB", exhaustive=True)
