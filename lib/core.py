"""Orchestration shared by all property checks.

A property check = TLC design check + TLC scenario generation + execution of the
scenarios on the real code (Go runner built from /repo's working tree with
-tags verif) + TLC trace validation of what the runner recorded.

Exit codes: 0 held, 1 violation (VIOLATION line printed), 2 infrastructure.
"""
import json
import os
import re
import shutil
import subprocess
import sys
import time
import hashlib
import random
from concurrent.futures import ThreadPoolExecutor

ROOT = os.path.dirname(os.path.dirname(os.path.abspath(__file__)))
SPEC = os.path.join(ROOT, "spec")
WORK = os.path.join(ROOT, ".work")
REPO = os.environ.get("VERIF_REPO", "/repo")
TLA_JAR = "/opt/veriftools/tla/tla2tools.jar"
TLA_CP = TLA_JAR + ":/opt/veriftools/tla/CommunityModules-deps.jar"
NCPU = os.cpu_count() or 8


class Infra(Exception):
    """Something in the machinery (not the code under test) failed: exit 2."""


class LibraryCrash(Exception):
    """The runner process died from a panic raised inside the library, in a goroutine the harness cannot
    guard (for instance the request goroutine of duplexHTTPCall): a violation of every "never panics"."""


def library_panic(stderr):
    """The text of the crash if the first non-runtime frame of the panicking goroutine is library code."""
    i = stderr.find("panic: ")
    if i < 0:
        i = stderr.find("fatal error: ")
    if i < 0:
        return None
    j = stderr.find("[running]:", i)
    if j < 0:
        return None
    # the runner annotates the metadata of an error value a call returned (harness annotate()): that map belongs to
    # one call, so the Go runtime's "concurrent map" abort there means the library handed one error value to two calls
    if "concurrent map" in stderr[i:i + 200] and "main.annotate" in stderr[j:j + 3000]:
        return stderr[i:i + 6000]
    for line in stderr[j:].splitlines()[1:40]:
        if line.startswith(("\t", " ")) or not line.strip():
            continue
        fn = line.strip()
        if fn.startswith(("panic(", "runtime.", "runtime/", "created by")):
            continue
        if fn.startswith("github.com/bufbuild/connect-go.") or fn.startswith("github.com/bufbuild/connect-go/cmd/"):
            return stderr[i:i + 6000]
        return None
    return None


def log(*a):
    print(*a, file=sys.stderr, flush=True)


def goenv():
    env = dict(os.environ)
    env.update(GOFLAGS="-mod=mod", GOPROXY="off", GOSUMDB="off", GOTOOLCHAIN="local")
    env.setdefault("GOCACHE", os.path.join(WORK, "gocache"))
    return env


class Ctx:
    def __init__(self, prop, tier, seed, replay=None):
        self.prop = prop
        self.tier = tier
        self.seed = seed
        self.replay = replay
        self.t0 = time.time()
        self.dir = os.path.join(WORK, "%s-%s-%d" % (prop, tier, os.getpid()))
        shutil.rmtree(self.dir, ignore_errors=True)
        os.makedirs(self.dir)
        self.rng = random.Random(seed)
        self.design = []       # list of dicts from design checks
        self.violations = []   # dicts
        self.known_hits = []   # dicts
        self.anomalies = []
        self.samples = []
        self.counts = dict(evaluations=0, traces=0, nontrivial=set())
        self.notes = {}

    def path(self, *p):
        return os.path.join(self.dir, *p)

    def cleanup(self):
        if not os.environ.get("VERIF_KEEP"):
            shutil.rmtree(self.dir, ignore_errors=True)


# --------------------------------------------------------------------------
# building the runner from /repo's working tree
# --------------------------------------------------------------------------
_built = {}


def build_runner(race=False):
    key = "race" if race else "plain"
    if key in _built:
        return _built[key]
    os.makedirs(os.path.join(WORK, "bin"), exist_ok=True)
    h = os.path.join(ROOT, "harness")
    suffix = ""
    if REPO != "/repo":
        # a scratch tree (seeded-change experiments): build from a private copy of the harness so that
        # concurrent runs against /repo are not disturbed
        suffix = "-" + hashlib.md5(REPO.encode()).hexdigest()[:8]
        hc = os.path.join(WORK, "harness" + suffix)
        shutil.rmtree(hc, ignore_errors=True)
        shutil.copytree(h, hc)
        h = hc
    gomod = os.path.join(h, "go.mod")
    with open(gomod, "w") as f:
        f.write("module github.com/bufbuild/connect-go/verifharness\n\ngo 1.21\n\n"
                "require (\n\tgithub.com/bufbuild/connect-go v0.0.0\n"
                "\tgoogle.golang.org/protobuf v1.28.0\n)\n\n"
                "replace github.com/bufbuild/connect-go => %s\n" % REPO)
    shutil.copy(os.path.join(REPO, "go.sum"), os.path.join(h, "go.sum"))
    out = os.path.join(WORK, "bin", "runner-" + key + suffix + ("-cover" if os.environ.get("VERIF_COVER") else ""))
    cmd = ["go", "build", "-tags", "verif", "-o", out]
    if race:
        cmd.append("-race")
    if os.environ.get("VERIF_COVER") and not race:
        # coverage probe (tools/cover.sh): which statements of the library the scenario sets reach; the runner
        # writes its counters to $GOCOVERDIR when it exits
        cmd += ["-cover", "-coverpkg=github.com/bufbuild/connect-go/..."]
    cmd.append("./cmd/runner")
    t = time.time()
    r = subprocess.run(cmd, cwd=h, env=goenv(), capture_output=True, text=True)
    if r.returncode != 0:
        # a tree that does not build is neither a pass nor a violation
        raise Infra("runner build failed:\n" + r.stdout + r.stderr)
    log("[build] runner(%s) %.1fs" % (key, time.time() - t))
    _built[key] = out
    return out


# --------------------------------------------------------------------------
# TLC
# --------------------------------------------------------------------------
_STATS = re.compile(r"(\d+) states generated, (\d+) distinct states found, (\d+) states left on queue")
_DEPTH = re.compile(r"The depth of the complete state graph search is (\d+)")


def tlc(ctx, module, cfg=None, workers=None, env=None, timeout=1800, extra=(), heap="6g",
        tag=None, deque=False, check=True):
    """Run TLC on spec/<module>.tla with spec/<cfg>. Returns dict(out, generated, distinct, depth, rc)."""
    tag = tag or module
    run = ctx.path("tlc-" + tag)
    shutil.rmtree(run, ignore_errors=True)
    os.makedirs(run)
    for f in os.listdir(SPEC):
        if f.endswith(".tla") or f.endswith(".cfg"):
            os.symlink(os.path.join(SPEC, f), os.path.join(run, f))
    cfg = cfg or (module + ".cfg")
    e = dict(os.environ)
    e.pop("JAVA_TOOL_OPTIONS", None)
    if env:
        e.update(env)
    if (workers or 1) == 1:
        # many single-worker JVMs run side by side (trace validation): the serial collector and the
        # C1 compiler only, otherwise GC and JIT threads oversubscribe the cores (measured: 4x slower)
        java = ["java", "-XX:+UseSerialGC", "-XX:TieredStopAtLevel=1", "-Xmx" + heap, "-Xss64m"]
    else:
        java = ["java", "-XX:+UseParallelGC", "-XX:ParallelGCThreads=8", "-Xmx" + heap, "-Xss64m"]
    if deque:
        java.append("-Dtlc2.tool.queue.IStateQueue=StateDeque")
    cmd = java + ["-cp", TLA_CP, "tlc2.TLC", "-config", cfg,
                  "-workers", str(workers or 1), "-metadir", os.path.join(run, "meta"),
                  "-noGenerateSpecTE"] + list(extra) + [module + ".tla"]
    t = time.time()
    try:
        r = subprocess.run(cmd, cwd=run, env=e, capture_output=True, text=True, timeout=timeout)
    except subprocess.TimeoutExpired:
        raise Infra("TLC timeout on %s/%s" % (module, cfg))
    out = r.stdout + r.stderr
    res = dict(out=out, rc=r.returncode, wall=time.time() - t, module=module, cfg=cfg)
    m = None
    for m in _STATS.finditer(out):
        pass
    if m:
        res.update(generated=int(m.group(1)), distinct=int(m.group(2)), left=int(m.group(3)))
    d = _DEPTH.search(out)
    if d:
        res["depth"] = int(d.group(1))
    with open(os.path.join(run, "out.txt"), "w") as f:
        f.write(out)
    if check and r.returncode != 0:
        raise Infra("TLC failed (rc=%d) on %s/%s:\n%s" % (r.returncode, module, cfg, out[-4000:]))
    shutil.rmtree(os.path.join(run, "meta"), ignore_errors=True)
    return res


def tlaps(ctx, module, timeout=900):
    """Check the proofs of spec/<module>.tla with the TLA+ proof system (unbounded results)."""
    run = ctx.path("tlaps-" + module)
    shutil.rmtree(run, ignore_errors=True)
    os.makedirs(run)
    for f in os.listdir(SPEC):
        if f.endswith(".tla"):
            shutil.copy(os.path.join(SPEC, f), os.path.join(run, f))
    t = time.time()
    try:
        r = subprocess.run(["tlapm", "--threads", "8", "--cleanfp", module + ".tla"], cwd=run, capture_output=True,
                           text=True, timeout=timeout)
    except (subprocess.TimeoutExpired, FileNotFoundError) as e:
        raise Infra("tlapm did not finish on %s: %s" % (module, e))
    m = re.search(r"All (\d+) obligations? proved", r.stdout + r.stderr)
    if not m:
        raise Infra("tlapm did not prove %s:\n%s" % (module, (r.stdout + r.stderr)[-2000:]))
    ctx.notes.setdefault("tlaps", {})[module] = dict(obligations=int(m.group(1)), wall_s=round(time.time() - t, 1))
    log("[tlaps] %s: all %s obligations proved, %.1fs" % (module, m.group(1), time.time() - t))


def design_check(ctx, module, cfg=None, workers=8, **kw):
    """Model-check a design config; an invariant violation on the model alone is my bug (exit 2)."""
    r = tlc(ctx, module, cfg, workers=workers, **kw)
    if "generated" not in r:
        raise Infra("no statistics from TLC for %s" % module)
    log("[design] %s/%s: %d generated, %d distinct, depth %s, %.1fs" %
        (module, r["cfg"], r["generated"], r["distinct"], r.get("depth"), r["wall"]))
    ctx.design.append(dict(module=module, cfg=r["cfg"], generated=r["generated"],
                           distinct=r["distinct"], depth=r.get("depth"), wall=round(r["wall"], 1)))
    return r


_EMIT = re.compile(r'^"(\{.*\})"$')


def emitted(out):
    """JSON objects printed by TLC through PrintT(ToJson(rec)) -- one quoted string per line."""
    res = []
    for line in out.splitlines():
        m = _EMIT.match(line.strip())
        if m:
            res.append(json.loads(json.loads('"' + m.group(1) + '"')))
    return res


def generate(ctx, module, cfg=None, simulate=None, **kw):
    """Run a generator config and return the emitted scenario records."""
    extra = list(kw.pop("extra", ()))
    if simulate:
        extra += ["-simulate", "num=%d" % simulate["num"], "-depth", str(simulate.get("depth", 100)),
                  "-seed", str(ctx.seed)]
    r = tlc(ctx, module, cfg, workers=1, extra=extra, tag=(kw.pop("tag", None) or module + "-gen"), **kw)
    sc = emitted(r["out"])
    log("[gen] %s/%s: %d scenarios, %.1fs" % (module, r["cfg"], len(sc), r["wall"]))
    r["scenarios"] = sc
    return r


# --------------------------------------------------------------------------
# runner
# --------------------------------------------------------------------------
def run_runner(ctx, family, scenarios, tag=None, race=False, timeout=3600, args=(), env=None):
    """Execute scenarios on the real code; returns path of the NDJSON trace file."""
    tag = tag or family
    binp = build_runner(race=race)
    scen = ctx.path("scen-%s.jsonl" % tag)
    with open(scen, "w") as f:
        for i, s in enumerate(scenarios):
            s = dict(s)
            s["tid"] = i + 1
            f.write(json.dumps(s, separators=(",", ":")) + "\n")
    out = ctx.path("trace-%s.ndjson" % tag)
    e = goenv()
    if env:
        e.update(env)
    cmd = [binp, "-family", family, "-in", scen, "-out", out, "-seed", str(ctx.seed)] + list(args)
    t = time.time()
    try:
        r = subprocess.run(cmd, env=e, capture_output=True, text=True, timeout=timeout)
    except subprocess.TimeoutExpired:
        raise Infra("runner timeout (%s)" % family)
    if r.returncode < 0:
        # killed (typically the OOM killer: a broken length prefix can make the library allocate gigabytes per
        # call): run again with little parallelism so that the outcome can still be judged from the traces
        log("[run] %s: runner killed (rc=%d), retrying with 2 workers" % (family, r.returncode))
        r = subprocess.run(cmd + ["-workers", "2"], env=e, capture_output=True, text=True, timeout=timeout * 4)
    if r.returncode != 0:
        crash = library_panic(r.stderr)
        if crash:
            raise LibraryCrash(crash)
        raise Infra("runner failed (%s): rc=%d\n%s" % (family, r.returncode, (r.stdout + r.stderr)[-4000:]))
    log("[run] %s: %d scenarios, %.1fs %s" % (family, len(scenarios), time.time() - t, r.stderr.strip()[-300:]))
    ctx.counts["evaluations"] += len(scenarios)
    return out


# --------------------------------------------------------------------------
# trace validation
# --------------------------------------------------------------------------
_REJ = re.compile(r'<<"REJECT", (\d+)>>')
_POST = re.compile(r'TRACE_INCOMPLETE')


def split_traces(path):
    """Yield traces (list of raw lines) from an NDJSON file; a trace starts at a reset event."""
    cur = []
    with open(path) as f:
        for line in f:
            if line.startswith('{"ev":"reset"') and cur:
                yield cur
                cur = []
            cur.append(line)
    if cur:
        yield cur


def validate(ctx, module, trace_file, cfg=None, shards=None, tag=None, deque=False, timeout=3600,
             sigfn=None, env=None):
    """Validate recorded traces against the trace spec `module`.

    Traces are independent (each starts with a reset event).  The trace specs used here
    never get stuck: an event no specification action can take marks the trace as
    rejected (a line <<"REJECT", n>> is printed) and the rest of that trace is skipped,
    so one TLC run judges every trace.  Returns (accepted, rejects) where rejects is a
    list of dict(trace=[events], at=index-in-trace, event=...).
    """
    tag = tag or module
    traces = list(split_traces(trace_file))
    n = len(traces)
    if n == 0:
        raise Infra("no traces recorded in %s" % trace_file)
    nsh = shards or min(NCPU, max(1, n // 200))
    per = (n + nsh - 1) // nsh
    jobs = []
    for s in range(nsh):
        part = traces[s * per:(s + 1) * per]
        if not part:
            continue
        p = ctx.path("shard-%s-%d.ndjson" % (tag, s))
        with open(p, "w") as f:
            for tr in part:
                f.writelines(tr)
        jobs.append((s, p, part))

    def one(job):
        s, p, part = job
        e = dict(TRACE_FILE=p)
        if env:
            e.update(env)
        r = tlc(ctx, module, cfg, workers=1, env=e, tag="%s-%d" % (tag, s), heap="1500m",
                deque=deque, timeout=timeout, check=False)
        out = r["out"]
        if r["rc"] != 0 or _POST.search(out) or "Model checking completed" not in out:
            raise Infra("trace validation crashed (%s shard %d, rc=%d):\n%s" % (module, s, r["rc"], out[-3000:]))
        rej = []
        starts = []
        k = 1
        for tr in part:
            starts.append(k)
            k += len(tr)
        import bisect
        for m in _REJ.finditer(out):
            line = int(m.group(1))
            ti = bisect.bisect_right(starts, line) - 1
            tr = [json.loads(x) for x in part[ti]]
            rej.append(dict(trace=tr, at=line - starts[ti], event=tr[line - starts[ti]]))
        return len(part), rej

    t = time.time()
    with ThreadPoolExecutor(max_workers=min(NCPU, len(jobs))) as ex:
        results = list(ex.map(one, jobs))
    rejects = [x for _, rj in results for x in rj]
    # one trace may be reported once only
    accepted = n - len(rejects)
    nev = sum(len(t_) for t_ in traces)
    log("[validate] %s: %d traces / %d events, %d rejected, %.1fs" % (module, n, nev, len(rejects), time.time() - t))
    ctx.counts["traces"] += accepted
    # non-trivial: trace has at least one event besides reset/done
    for tr in traces:
        if len(tr) > 2:
            ctx.counts["nontrivial"].add(hashlib.md5(tr[0].encode()).hexdigest()[:12] if False else
                                         hashlib.md5("".join(_strip_tid(x) for x in tr).encode()).hexdigest()[:12])
    if traces and len(ctx.samples) < 3:
        mid = traces[len(traces) // 2]
        ctx.samples.append(dict(source=module, trace=[json.loads(x) for x in mid[:12]]))
    for rj in rejects:
        rj["module"] = module
        rj["sig"] = sigfn(rj) if sigfn else default_sig(ctx.prop, rj)
    return accepted, rejects


_TID = re.compile(r'"tid":\d+,?')


def _strip_tid(line):
    return _TID.sub("", line)


def default_sig(prop, rj):
    sc = rj["trace"][0].get("sc", {})
    ev = rj["event"]
    keys = [k for k in ("proto", "side", "kind", "shape") if k in sc]
    return prop + "|" + ",".join("%s=%s" % (k, sc[k]) for k in keys) + "|at=" + ev.get("ev", "?")


# --------------------------------------------------------------------------
# known findings, verdict, evidence
# --------------------------------------------------------------------------
def load_known():
    p = os.path.join(ROOT, "known_findings.jsonl")
    res = []
    if os.path.exists(p):
        for line in open(p):
            line = line.strip()
            if line and not line.startswith("#"):
                res.append(json.loads(line))
    return res


def judge(ctx, rejects):
    """Split rejections into violations and open known findings (by exact signature)."""
    known = {k["signature"]: k for k in load_known() if k.get("status") == "open" and k["property"] == ctx.prop}
    for rj in rejects:
        if rj["sig"] in known:
            ctx.known_hits.append(rj)
        else:
            ctx.violations.append(rj)


def finish(ctx, level="model_checking", rule="", assumptions=(), exhaustive=False, extra=None):
    # runs against another tree (seeded changes: VERIF_REPO) leave the evidence of /repo alone
    evdir = os.path.join(ROOT, "evidence") if REPO == "/repo" else os.path.join(WORK, "evidence-other-tree")
    os.makedirs(evdir, exist_ok=True)
    os.makedirs(os.path.join(ROOT, "replays"), exist_ok=True)
    known = {k["signature"]: k for k in load_known()}
    seen = set()
    for rj in ctx.known_hits:
        if rj["sig"] in seen:
            continue
        seen.add(rj["sig"])
        print("KNOWN-FINDING: property=%s %s [%s]" % (ctx.prop, known[rj["sig"]].get("what", ""), rj["sig"]))
    rc = 0
    seen = set()
    for i, v in enumerate(ctx.violations):
        if v["sig"] in seen and i >= 3:
            continue
        seen.add(v["sig"])
        name = "%s-%s-%s.json" % (ctx.prop, ctx.tier, hashlib.md5(json.dumps(v["trace"], sort_keys=True).encode()).hexdigest()[:10])
        p = os.path.join(ROOT, "replays", name)
        with open(p, "w") as f:
            json.dump(dict(property=ctx.prop, seed=ctx.seed, tier=ctx.tier, signature=v["sig"],
                           family=v.get("family"), scenario=v["trace"][0].get("scn", v["trace"][0].get("sc")),
                           rejected_at=v["at"], rejected_event=v["event"], spec=v.get("module"),
                           trace=v["trace"], detail=v.get("detail")), f, indent=1)
        print("VIOLATION property=%s replay=%s" % (ctx.prop, p))
        log("  signature %s; rejected event %s" % (v["sig"], json.dumps(v["event"])[:300]))
        rc = 1
        if len(seen) >= 10:
            break
    states = sum(d["distinct"] for d in ctx.design)
    trans = sum(d["generated"] for d in ctx.design)
    cov = dict(states=states, transitions=trans,
               traces_validated_against_impl=ctx.counts["traces"],
               evaluations=ctx.counts["evaluations"],
               distinct_nontrivial=len(ctx.counts["nontrivial"]),
               rule=rule, samples=ctx.samples[:4] or [dict(note="no trace sampled")],
               exhaustive=bool(exhaustive), design_checks=ctx.design,
               known_finding_hits=len(ctx.known_hits), anomalies=ctx.anomalies[:20])
    cov.update(ctx.notes)
    if extra:
        cov.update(extra)
    ev = dict(property_id=ctx.prop, tier=ctx.tier, seed=ctx.seed, level=level, coverage=cov,
              assumptions=list(assumptions) + ["go toolchain: " + go_version(), "TLC 2.x (tla2tools 1.8.0)"],
              wall_s=round(time.time() - ctx.t0, 1), violations=len(ctx.violations))
    with open(os.path.join(evdir, ctx.prop + ".json"), "w") as f:
        json.dump(ev, f, indent=1, default=str)
    log("[done] %s %s: rc=%d, %d traces validated, %d violations, %d known, %.1fs" %
        (ctx.prop, ctx.tier, rc, ctx.counts["traces"], len(ctx.violations), len(ctx.known_hits), time.time() - ctx.t0))
    return rc


_gv = None


def go_version():
    global _gv
    if _gv is None:
        try:
            _gv = subprocess.run(["go", "version"], env=goenv(), capture_output=True, text=True).stdout.strip()
        except Exception:
            _gv = "unknown"
    return _gv


def sample(rng, items, k):
    items = list(items)
    if len(items) <= k:
        return items
    return rng.sample(items, k)


_HWMREJ = re.compile(r'<<"TRACE_REJECTED_AT", (\d+)>>')


def validate_seq(ctx, module, trace_file, cfg=None, shards=None, tag=None, sigfn=None, max_rejects=4, timeout=3600):
    """Validation for trace specifications with silent (unlogged) steps: the search branches, so an event
    nobody can take cannot be skipped; the high-water mark tells where the first unexplainable trace is.
    That trace is reported and removed, and the shard is checked again (a few times at most)."""
    tag = tag or module
    traces = list(split_traces(trace_file))
    n = len(traces)
    if n == 0:
        raise Infra("no traces recorded in %s" % trace_file)
    # traces in which the harness itself recorded that something never returned (or panicked) are not
    # behaviours of any trace specification: they are rejected at that event without asking TLC
    pre = []
    rest = []
    for tr in traces:
        bad = [i for i, x in enumerate(tr) if x.startswith(('{"ev":"stuck"', '{"ev":"hstuck"', '{"ev":"panic"', '{"ev":"hang"'))]
        if bad:
            evs = [json.loads(x) for x in tr]
            pre.append(dict(trace=evs, at=bad[0], event=evs[bad[0]]))
        else:
            rest.append(tr)
    all_traces = traces
    traces = rest
    n = len(traces)
    nsh = shards or min(NCPU, max(1, n // 20))
    per = (n + nsh - 1) // nsh if n else 1
    jobs = [(s, traces[s * per:(s + 1) * per]) for s in range(nsh) if traces[s * per:(s + 1) * per]]

    def one(job):
        s, part = job
        part = list(part)
        rej = []
        unchecked = 0
        for attempt in range(max_rejects + 1):
            if not part:
                break
            p = ctx.path("shard-%s-%d.ndjson" % (tag, s))
            with open(p, "w") as f:
                for tr in part:
                    f.writelines(tr)
            r = tlc(ctx, module, cfg, workers=1, env=dict(TRACE_FILE=p), tag="%s-%d" % (tag, s), heap="2g",
                    deque=True, timeout=timeout, check=False)
            out = r["out"]
            if r["rc"] != 0 or "Model checking completed" not in out:
                raise Infra("trace validation crashed (%s shard %d, rc=%d):\n%s" % (module, s, r["rc"], out[-3000:]))
            m = _HWMREJ.search(out)
            if not m:
                break
            line = int(m.group(1))
            k = 1
            for ti, tr in enumerate(part):
                if line < k + len(tr):
                    evs = [json.loads(x) for x in tr]
                    rej.append(dict(trace=evs, at=line - k, event=evs[line - k]))
                    del part[ti]
                    break
                k += len(tr)
            else:
                raise Infra("rejection line %d beyond the shard" % line)
            if attempt == max_rejects:
                unchecked = len(part)
        return len(part) - unchecked, rej, unchecked

    t = time.time()
    with ThreadPoolExecutor(max_workers=max(1, min(NCPU, len(jobs)))) as ex:
        results = list(ex.map(one, jobs))
    rejects = pre + [x for _, rj, _ in results for x in rj]
    traces = all_traces
    n = len(traces)
    accepted = sum(a for a, _, _ in results)
    unchecked = sum(u for _, _, u in results)
    log("[validate] %s: %d traces, %d accepted, %d rejected, %d not judged, %.1fs" %
        (module, n, accepted, len(rejects), unchecked, time.time() - t))
    ctx.counts["traces"] += accepted
    for tr in traces:
        if len(tr) > 2:
            ctx.counts["nontrivial"].add(hashlib.md5("".join(_strip_tid(x) for x in tr).encode()).hexdigest()[:12])
    if traces and len(ctx.samples) < 3:
        ctx.samples.append(dict(source=module, trace=[json.loads(x) for x in traces[len(traces) // 2][:14]]))
    for rj in rejects:
        rj["module"] = module
        rj["sig"] = sigfn(rj) if sigfn else default_sig(ctx.prop, rj)
    return accepted, rejects
