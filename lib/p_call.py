"""Call family: C14, C15 (and the concurrency checks of C13) -- spec/Call.tla, spec/TraceCall.tla."""
from . import core


def sig(prop):
    def f(rj):
        scn = rj["trace"][0].get("scn", {})
        ev = rj["event"]
        evs = rj["trace"][:rj["at"] + 1]
        cancelled = any(e.get("ev") == "cancel" for e in evs)
        req_closed = any(e.get("ev") == "ret" and e.get("op") == "closereq" for e in evs)
        if cancelled and not req_closed and (ev.get("ev") == "hstuck" or
                                            (ev.get("ev") == "stuck" and ev.get("op") in ("recv", "closeresp"))):
            # finding 10: net/http's HTTP/2 client cannot notice the cancellation while it is blocked reading the
            # (idle, still open) request pipe, and the library never closes that pipe on cancellation
            return "%s|h2-cancel-with-open-idle-request-side|%s" % (prop, "handler-never-cancelled" if ev["ev"] == "hstuck"
                                                                      else ev.get("op") + "-never-returns")
        prog = ",".join(o["op"] + (":" + o.get("how", "") + "/" + o.get("mode", "") if o["op"] == "cancel" else "")
                        for o in scn.get("prog", []))
        h = scn.get("h", {})
        got = "%s:%s=%s" % (ev.get("ev"), ev.get("op", ""), ev.get("res", ev.get("leaked", "")))
        return "%s|%s|h=%s/%s/%s/%s|%s|%s" % (prop, scn.get("proto"), h.get("hrecv"), h.get("hsend"),
                                              h.get("hdrain"), h.get("hret"), prog, got)
    return f


def programs(ctx, want_cancel):
    quick = ctx.tier == "quick"
    progs = core.generate(ctx, "Gen_Call", "Gen_Call_Q.cfg" if quick else "Gen_Call.cfg", tag="genprog")["scenarios"]
    has_cancel = lambda p: any(o["op"] == "cancel" for o in p["prog"])
    progs = [p for p in progs if has_cancel(p) == want_cancel or (want_cancel is None)]
    total = len(progs)
    progs = core.sample(ctx.rng, progs, 480 if quick else 6000)
    out = []
    for i, p in enumerate(progs):
        out.append(dict(p, proto=["connect", "grpc", "grpcweb"][i % 3]))
    ctx.notes["programs_generated"] = total
    return out


def run_call(ctx, want_cancel):
    quick = ctx.tier == "quick"
    core.design_check(ctx, "MC_Call", "MC_Call_Q.cfg" if quick else "MC_Call.cfg", timeout=3600)
    scen = programs(ctx, want_cancel)
    tf = core.run_runner(ctx, "call", scen, tag="call", timeout=7200, args=["-hang", "120s", "-workers", "8"])
    acc, rej = core.validate_seq(ctx, "TraceCall", tf, tag="call", sigfn=sig(ctx.prop))
    core.judge(ctx, rej)
    return core.finish(ctx, rule=(
        "client programs are TLC paths of spec/Gen_Call.tla (every operation sequence obeying the property's "
        "discipline, cancel()/deadline between or during operations, filtered so that the pair with the handler "
        "program has no application-level circular wait) x handler programs x protocols; each runs against a real "
        "loopback HTTP/2 server; the recorded call/return/cancel events must be a behaviour of Call.tla with the "
        "environment inferred as silent steps; distinct = distinct traces; non-trivial = at least one operation returned"),
        assumptions=["the environment half of Call.tla is a superset model of net/http's HTTP/2 client and server "
                     "of the Go toolchain in this sandbox", "goroutines are attributed to a scenario by profiler labels"])


def run_C14(ctx):
    return run_call(ctx, False)


def run_C15(ctx):
    return run_call(ctx, True)
