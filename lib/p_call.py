"""Call family: C14, C15 (and the concurrency checks of C13) -- spec/Call.tla, spec/TraceCall.tla."""
from . import core


def sig(prop):
    def f(rj):
        scn = rj["trace"][0].get("scn", {})
        ev = rj["event"]
        evs = rj["trace"][:rj["at"] + 1]
        cancelled = any(e.get("ev") == "cancel" for e in evs)
        req_closed = any(e.get("ev") == "ret" and e.get("op") == "closereq" for e in evs)
        # the request was really under way (a Send went through) before the context ended
        first_cancel = next((i for i, e in enumerate(evs) if e.get("ev") == "cancel"), len(evs))
        in_flight = any(e.get("ev") == "ret" and e.get("op") == "send" and e.get("res") == "ok" for e in evs[:first_cancel])
        if cancelled and in_flight and not req_closed and (ev.get("ev") == "hstuck" or
                                            (ev.get("ev") == "stuck" and ev.get("op") in ("recv", "closeresp"))):
            # finding 10: net/http's HTTP/2 client cannot notice the cancellation while it is blocked reading the
            # (idle, still open) request pipe, and the library never closes that pipe on cancellation
            return "%s|h2-cancel-with-open-idle-request-side|%s" % (prop, "handler-never-cancelled" if ev["ev"] == "hstuck"
                                                                      else ev.get("op") + "-never-returns")
        prog = ",".join(o["op"] + (":" + o.get("how", "") + "/" + o.get("mode", "") if o["op"] == "cancel" else "")
                        for o in scn.get("prog", []))
        h = scn.get("h", {})
        got = "%s:%s=%s" % (ev.get("ev"), ev.get("op", ""), ev.get("res", ev.get("leaked", "")))
        return "%s|%s|h=%s/%s/%s/%s|%s|%s" % (prop, scn.get("proto"), h.get("hrecv"), h.get("hsend"),
                                              h.get("hdrain"), h.get("hret"), prog, got)
    return f


def programs(ctx, want_cancel):
    quick = ctx.tier == "quick"
    has_cancel = lambda p: any(o["op"] == "cancel" for o in p["prog"])
    bidi = core.generate(ctx, "Gen_Call", "Gen_Call_Q.cfg" if quick else "Gen_Call.cfg", tag="genprog")["scenarios"]
    bidi = [p for p in bidi if has_cancel(p) == want_cancel]
    kinds = core.generate(ctx, "Gen_CallK", "Gen_Call_K.cfg", tag="genprogk")["scenarios"]
    kinds = [p for p in kinds if has_cancel(p) == want_cancel]
    ctx.notes["programs_generated"] = dict(bidi=len(bidi), other_kinds=len(kinds))
    out = []
    for i, p in enumerate(core.sample(ctx.rng, bidi, 360 if quick else 6000)):
        out.append(dict(p, kind="bidi", http=2, proto=["connect", "grpc", "grpcweb"][i % 3]))
    floods = [p for p in kinds if p["h"].get("hflood")]
    unary = [p for p in kinds if p["kind"] == "unary"]
    kinds = [p for p in kinds if not p["h"].get("hflood") and p["kind"] != "unary"]
    # unary calls (few programs: CallUnary with the context ending before or during it): all of them, both HTTP versions
    for i, p in enumerate(unary):
        for proto, http in (("connect", 1), ("connect", 2), ("grpc", 2), ("grpcweb", 1), ("grpcweb", 2)):
            if p["h"]["hret"] == "stall" and http == 1:
                continue
            out.append(dict(p, http=http, proto=proto))
    # handlers that send until the client goes away: a seeded handful, over both HTTP versions
    for i, p in enumerate(core.sample(ctx.rng, floods, 18 if quick else len(floods))):
        proto = ["connect", "grpc", "grpcweb"][i % 3]
        out.append(dict(p, http=2 if proto == "grpc" else [1, 2][(i // 3) % 2], proto=proto))
    for i, p in enumerate(core.sample(ctx.rng, kinds, 240 if quick else len(kinds))):
        # server and client streaming also run over HTTP/1.1 (plain gRPC needs HTTP/2 trailers end to end)
        proto = ["connect", "grpc", "grpcweb"][i % 3]
        http = 2 if proto == "grpc" else [1, 2][(i // 3) % 2]
        if p["h"]["hret"] == "stall":
            # net/http's HTTP/1.1 server notices a vanished client only while reading or writing: a handler that
            # just waits for its context is not told (environment, not the library)
            http = 2
        out.append(dict(p, http=http, proto=proto))
        # request messages larger than the HTTP/2 flow-control window: a Send blocks until the handler reads it or
        # finishes (only with handlers that finish on their own: no circular wait)
        if http == 2 and p["h"]["hret"] != "stall" and (i % 4 == 0 or (p["kind"] == "server" and p["h"]["hrecv"] == 0)):
            out.append(dict(p, http=2, proto=proto, big=True))
    return out


def receiving(ctx):
    """C15 "while receiving": the context ends at every byte offset of every response body of the Frames design
    check (inside a prefix, inside a payload, between frames); the failing call must carry the context's code."""
    from . import p_frames
    core.design_check(ctx, "MC_Frames", "MC_Frames.cfg")
    scen = []
    for r in p_frames.gen_a(ctx, ctx_tails=True):
        for script in ([[], p_frames.ONES] if ctx.tier == "quick" else [[], p_frames.ONES, p_frames.SPLIT]):
            s = p_frames.flat(r, script, False)
            scen.append(s)
            scen += p_frames.unary_variants(s)
    tf = core.run_runner(ctx, "frames", scen, tag="recvctx")
    acc, rej = core.validate(ctx, "TraceFrames", tf, tag="recvctx", sigfn=p_frames.sig(ctx.prop))
    core.judge(ctx, rej)
    # "while sending": the context ends when the transport has consumed k bytes of the request, for every k
    p_frames.sendside(ctx, ("ctxc", "ctxd"))


def run_call(ctx, want_cancel):
    quick = ctx.tier == "quick"
    if want_cancel:
        receiving(ctx)
    else:
        # C14 "Sends fail instead of blocking", "every API call returns": the sending half under a transport that stops
        # cooperating after k bytes, and messages the codec refuses
        from . import p_frames, p_scalars
        p_frames.sendside(ctx, ("err", "ctxc", "ctxd"))
        p_scalars.scalars(ctx, {"client_init_fail"}, [])      # a client that could not be configured: every API returns
        # "once Receive has reported an error it keeps reporting one": every response body of the Frames design check
        # read through a bidi stream, two more Receives after the end
        core.design_check(ctx, "MC_Frames", "MC_Frames.cfg")
        scen = [p_frames.flat(r, [], False, bidi=True) for r in p_frames.gen_a(ctx)
                if r["sc"]["side"] == "client" and not r["sc"]["raw"]]
        tf = core.run_runner(ctx, "frames", scen, tag="sticky")
        acc, rej = core.validate(ctx, "TraceFrames", tf, tag="sticky", sigfn=p_frames.sig(ctx.prop))
        core.judge(ctx, rej)
    core.design_check(ctx, "MC_Call", "MC_Call_Q.cfg" if quick else "MC_Call.cfg", timeout=3600)
    scen = programs(ctx, want_cancel)
    tf = core.run_runner(ctx, "call", scen, tag="call", timeout=7200, args=["-hang", "120s", "-workers", "8"])
    acc, rej = core.validate_seq(ctx, "TraceCall", tf, tag="call", sigfn=sig(ctx.prop))
    core.judge(ctx, rej)
    return core.finish(ctx, rule=(
        "client programs are TLC paths of spec/Gen_Call.tla (every operation sequence obeying the property's "
        "discipline, cancel()/deadline between or during operations, filtered so that the pair with the handler "
        "program has no application-level circular wait) x handler programs x protocols; each runs against a real "
        "loopback HTTP/2 server; the recorded call/return/cancel events must be a behaviour of Call.tla with the "
        "environment inferred as silent steps; distinct = distinct traces; non-trivial = at least one operation returned"),
        assumptions=["the environment half of Call.tla is a superset model of net/http's HTTP/2 client and server "
                     "of the Go toolchain in this sandbox", "goroutines are attributed to a scenario by profiler labels"])


def run_C14(ctx):
    # HTTPClient.Do returns a response after the call's context was cancelled: that body is closed too
    from . import p_scalars
    p_scalars.scalars(ctx, {"late_response", "recvfail_live"}, [])
    return run_call(ctx, False)


def run_C15(ctx):
    # "a handler that returns its context's error conveys that same classification to the client": the handler's
    # context ends on the server side alone -- the error scenarios of C02 with the codes canceled / deadline_exceeded
    from . import p_wire
    core.design_check(ctx, "MC_Wire", "MC_Wire_Q.cfg")
    sc = [s for s in core.generate(ctx, "MC_Wire", "Gen_Wire_C02.cfg", tag="genC02")["scenarios"]
          if s["out"]["kind"] in ("err", "wrapped") and s["out"]["code"] in (1, 4)]
    sc = core.sample(ctx.rng, sc, 1500 if ctx.tier == "quick" else len(sc))
    tf = core.run_runner(ctx, "e2e", [dict(s, transport="mem") for s in sc], tag="ctxcodes")
    acc, rej = core.validate(ctx, "TraceWire", tf, tag="ctxcodes", sigfn=p_wire.sig(ctx.prop))
    core.judge(ctx, rej)
    # ... and the bare ctx.Err() itself, the context having ended through the timeout header of a peer that does not
    # enforce it, or through the server cancelling the request
    from . import p_scalars
    p_scalars.scalars(ctx, {"handler_ctx", "late_response"}, [])
    return run_call(ctx, True)


# ---------------------------------------------------------------------------------------------------------
# C13: concurrent calls on shared clients and handlers
# ---------------------------------------------------------------------------------------------------------
def run_C13(ctx):
    import os
    import subprocess
    from . import p_wire, p_serve, p_frames
    quick = ctx.tier == "quick"
    core.design_check(ctx, "MC_Pools", "MC_Pools.cfg", workers=2)
    core.tlaps(ctx, "PoolsProof")      # the ownership rule for any number of buffers and calls
    core.design_check(ctx, "MC_Wire", "MC_Wire_Q.cfg")
    # (0) one stream, a blocked Send and a Receive at the same time
    from . import p_scalars
    p_scalars.scalars(ctx, {"recv_while_send"}, [])
    # (1) many goroutines, pairwise-distinct payloads, one client and one handler per configuration
    scen = []
    for g in ("C01", "C02", "C08", "C11"):
        sc = core.generate(ctx, "MC_Wire", "Gen_Wire_%s.cfg" % g, tag="gen" + g)["scenarios"]
        scen += core.sample(ctx.rng, sc, 2500 if quick else 40000)
    conc = []
    for s in scen:
        s = dict(s, shared=True, transport="mem")
        if s["kind"] == "bidi" and s["out"]["kind"] == "ok" and len(s["req"]) > 0 and ctx.rng.random() < 0.7:
            # sender and receiver goroutine on one stream: the handler echoes
            s = dict(s, echo=True, resp=[dict(m) for m in s["req"]])
        conc.append(s)
    # broken peers (no terminator) on the shared clients: each failure must stay with its own call
    for s in core.generate(ctx, "MC_Wire", "Gen_Wire_Drop.cfg", tag="gendrop")["scenarios"]:
        conc.append(dict(s, shared=True, transport="mem"))
    ctx.rng.shuffle(conc)
    pool1 = ctx.path("pool-e2e.ndjson")
    tf = core.run_runner(ctx, "e2e", conc, tag="conc", args=["-workers", "64", "-pooltrace", pool1])
    acc, rej = core.validate(ctx, "TraceWire", tf, tag="conc", sigfn=p_wire.sig("C13"))
    core.judge(ctx, rej)
    acc, rej = core.validate(ctx, "TracePools", pool1, tag="pool1", shards=8, sigfn=pool_sig)
    core.judge(ctx, rej)
    # (2) error paths under concurrency: undecodable / corrupt / oversize input interleaved with valid calls
    bad = [s for s in core.generate(ctx, "MC_Serve", "Gen_Serve.cfg", tag="genserve")["scenarios"]
           if s["method"] == "POST" and s["theader"] == "none"]
    bad = core.sample(ctx.rng, bad, 3000 if quick else 20000)
    pool2 = ctx.path("pool-req.ndjson")
    tf = core.run_runner(ctx, "req", bad, tag="concreq", args=["-workers", "64", "-pooltrace", pool2])
    acc, rej = core.validate(ctx, "TraceServe", tf, tag="concreq", sigfn=p_serve.sig("C13"))
    core.judge(ctx, rej)
    acc, rej = core.validate(ctx, "TracePools", pool2, tag="pool2", shards=4, sigfn=pool_sig)
    core.judge(ctx, rej)
    fr = [p_frames.flat(r, [], False) for r in p_frames.gen_a(ctx)
          if r["sc"]["limit"] == 0]
    fr = core.sample(ctx.rng, fr, 3000 if quick else 20000)
    pool3 = ctx.path("pool-frames.ndjson")
    tf = core.run_runner(ctx, "frames", fr, tag="concfr", args=["-workers", "64", "-pooltrace", pool3])
    acc, rej = core.validate(ctx, "TraceFrames", tf, tag="concfr", sigfn=p_frames.sig("C13"))
    core.judge(ctx, rej)
    acc, rej = core.validate(ctx, "TracePools", pool3, tag="pool3", shards=4, sigfn=pool_sig)
    core.judge(ctx, rej)
    # (3) the same traffic under the race detector (auxiliary monitor: data races are below the model's grain)
    racelog = ctx.path("race")
    sub = core.sample(ctx.rng, conc, 1500 if quick else 15000)
    tf = core.run_runner(ctx, "e2e", sub, tag="race", race=True, args=["-workers", "32"],
                         env=dict(GORACE="halt_on_error=0 exitcode=0 log_path=%s" % racelog))
    reports = []
    for fn in os.listdir(ctx.dir):
        if fn.startswith("race."):
            txt = open(os.path.join(ctx.dir, fn)).read()
            reports += [r for r in txt.split("==================") if "DATA RACE" in r]
    lib = [r for r in reports if "/bufbuild/connect-go." in r or core.REPO + "/" in r]
    ctx.notes["race_detector"] = dict(scenarios=len(sub), reports=len(reports), in_library=len(lib))
    if lib:
        ctx.violations.append(dict(trace=[dict(ev="reset", sc=dict(kind="race"), scn=dict(seed=ctx.seed))],
                                   at=0, event=dict(ev="race"), sig="C13|data-race", module="race detector",
                                   detail=lib[0][:6000]))
    acc, rej = core.validate(ctx, "TraceWire", tf, tag="race", sigfn=p_wire.sig("C13"))
    core.judge(ctx, rej)
    return core.finish(ctx, rule=(
        "scenarios of C01/C02/C08/C11 (TLC-generated) executed by 64 goroutines on ONE client and ONE handler per "
        "configuration with pairwise-distinct payloads, bidi streams with a sending and a receiving goroutine; every "
        "call's trace must be what Wire.tla computes for that call alone (foreign or stale bytes project to "
        "'corrupt'); retained values are re-read at the end; buffer-pool Get/Put events (verif hooks, buffers "
        "poisoned on Put) must be a behaviour of Pools.tla, also for error-path traffic; the same traffic under "
        "the race detector"),
        assumptions=["real goroutine schedules are perturbed by load, not enumerated",
                     "the race detector is an auxiliary monitor: unsynchronised access is below the specification's grain"])


def pool_sig(rj):
    ev = rj["event"]
    return "C13|pool|%s of buffer that is %s" % (ev.get("ev"), "already handed out" if ev.get("ev") == "get" else "already pooled")
